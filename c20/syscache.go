package c20

import (
	"fmt"
	"os"
	"path/filepath"
	"sort"

	"github.com/anishathalye/porcupine"
	"github.com/tdewolff/canvas"

	"verif/simrt"
)

// The system font cache (font.go: systemFonts) is the one object the library deliberately shares
// between callers: FindSystemFont / LoadSystemFont read it (filling it lazily on first use) and
// CacheSystemFonts replaces it. "The result the call returns when run alone" depends on that
// shared state by design, so for this surface the oracle is linearizability: the recorded
// concurrent history (invoke/return stamped with the scheduler's global event number) must be
// explainable by SOME sequential order of the calls against a single-register model. The model's
// answer table is not written down here: it is measured in the reference phase by running every
// (state, query) pair alone against the real code.

var sysNames = []string{"DejaVu Serif", "EB Garamond", "Dynalight", "serif", "no such font"}

// sysDirs[k-1] is the directory list installed by "syscache" with K=k.
func sysDirs(scratch string, k int) []string {
	return []string{filepath.Join(scratch, fmt.Sprintf("fonts%d", k))}
}

// SetupSysDirs creates the fixture directories (idempotent).
func SetupSysDirs(scratch, resources string) error {
	sets := map[int][]string{1: {"Dynalight-Regular.otf"}, 2: {"EBGaramond12-Regular.otf", "Dynalight-Regular.otf"}}
	for k, names := range sets {
		d := sysDirs(scratch, k)[0]
		if err := os.MkdirAll(d, 0o755); err != nil {
			return err
		}
		for _, n := range names {
			dst := filepath.Join(d, n)
			if _, err := os.Stat(dst); err == nil {
				continue
			}
			b, err := os.ReadFile(filepath.Join(resources, n))
			if err != nil {
				return err
			}
			if err := os.WriteFile(dst, b, 0o644); err != nil {
				return err
			}
		}
	}
	return nil
}

type sysIn struct {
	Op    string // sysfind | sysload | syscache
	Name  int
	Style int
	K     int
}

type sysOut struct {
	S string
}

func (h *Harness) sysExec(st *Step, cacheFile string) sysOut {
	defer func() {
		if r := recover(); r != nil {
			if ab, ok := r.(simrt.ErrAbort); ok {
				panic(ab)
			}
		}
	}()
	switch st.Op {
	case "sysfind":
		fn, ok := canvas.FindSystemFont(sysNames[st.Font%len(sysNames)], styles[st.Style%4])
		return sysOut{fmt.Sprintf("%s %v", filepath.Base(fn), ok)}
	case "sysload":
		f, err := canvas.LoadSystemFont(sysNames[st.Font%len(sysNames)], styles[st.Style%4])
		if err != nil {
			return sysOut{"error"}
		}
		return sysOut{fmt.Sprintf("font %s glyphs=%d", f.Name(), f.NumGlyphs())}
	case "syscache":
		os.Remove(cacheFile)
		if err := canvas.CacheSystemFonts(cacheFile, sysDirs(h.Scratch, st.Opt)); err != nil {
			return sysOut{"error " + err.Error()}
		}
		return sysOut{"ok"}
	}
	panic("unknown sys op " + st.Op)
}

// sysTable measures the model's answers: state 0 = lazily scanned default list, k = list of dirs k.
func (h *Harness) sysTable(spec *RunSpec) map[[4]int]string {
	tab := map[[4]int]string{}
	for state := 0; state <= 2; state++ {
		for _, t := range spec.Tasks {
			for i := range t.Steps {
				st := &t.Steps[i]
				if st.Op == "syscache" {
					continue
				}
				key := [4]int{state, opCode(st.Op), st.Font % len(sysNames), st.Style % 4}
				if _, ok := tab[key]; ok {
					continue
				}
				resetGlobals(spec)
				if state > 0 {
					f := filepath.Join(h.Scratch, "cache-table")
					os.Remove(f)
					if err := canvas.CacheSystemFonts(f, sysDirs(h.Scratch, state)); err != nil {
						tab[key] = "table-error " + err.Error()
						continue
					}
				}
				tab[key] = h.sysExec(st, "").S
			}
		}
	}
	return tab
}

func opCode(op string) int {
	switch op {
	case "sysfind":
		return 0
	case "sysload":
		return 1
	}
	return 2
}

// SysHistory is the recorded concurrent history of a syscache run.
type SysHistory struct {
	Ops   []porcupine.Operation
	Table map[[4]int]string
}

// executeSys is the simulation phase for the "syscache" profile.
func (h *Harness) executeSys(spec *RunSpec, rep *RunReport, out *Outcome) error {
	h.progress(spec.Run, "ref")
	table := h.sysTable(spec)
	h.progress(spec.Run, "sim")
	resetGlobals(spec)
	cfg := spec.Sim
	cfg.StepBudget = make([]int, len(spec.Tasks))
	for i := range cfg.StepBudget {
		cfg.StepBudget[i] = StepBudget
	}
	live := make([]bool, 4096)
	for i := range live {
		live[i] = int(simrt.Mix(cfg.Seed, 0x11fe, uint64(i))%100) < cfg.LivePct
	}
	simrt.SetLiveSites(live)
	mapSeeds := make([]uint64, len(spec.Tasks))
	for t := range spec.Tasks {
		mapSeeds[t] = spec.Tasks[t].MapSeed
	}
	sim := simrt.New(cfg, len(spec.Tasks), mapSeeds, h.KeepTrace)
	type rec struct {
		in        sysIn
		out       sysOut
		call, ret int64
		done      bool
	}
	recs := make([][]rec, len(spec.Tasks))
	bodies := make([]func(), len(spec.Tasks))
	for t := range spec.Tasks {
		t := t
		recs[t] = make([]rec, len(spec.Tasks[t].Steps))
		bodies[t] = func() {
			defer func() {
				if r := recover(); r != nil {
					if _, ok := r.(simrt.ErrAbort); !ok {
						panic(r)
					}
				}
			}()
			for s := range spec.Tasks[t].Steps {
				st := &spec.Tasks[t].Steps[s]
				simrt.StepMark()
				r := &recs[t][s]
				r.in = sysIn{Op: st.Op, Name: st.Font % len(sysNames), Style: st.Style % 4, K: st.Opt}
				r.call = simrt.Stamp()
				r.out = h.sysExec(st, filepath.Join(h.Scratch, fmt.Sprintf("cache-%d-%d", t, s)))
				r.ret = simrt.Stamp()
				r.done = true
			}
		}
	}
	if h.QuiescenceWait != nil {
		sim.SetQuiescenceWait(h.QuiescenceWait)
	}
	sim.Run(bodies)
	simrt.SetLiveSites(nil)
	leaked := map[int]bool{}
	for _, id := range sim.Stats().Leaked {
		leaked[id] = true
	}
	out.Recorded = sim.Recorded()
	out.Stats = sim.Stats()
	out.Trace = sim.Trace
	rep.Stats = sim.Stats()
	for k := range rep.Stats.SitePairs {
		rep.SitePairs = append(rep.SitePairs, k)
	}
	sort.Slice(rep.SitePairs, func(i, j int) bool { return rep.SitePairs[i] < rep.SitePairs[j] })
	rep.SiteHits = map[int]int{}
	for k, v := range rep.Stats.SiteHits {
		rep.SiteHits[int(k)] = v
	}
	hist := &SysHistory{Table: table}
	rh := newHasher()
	for t := range recs {
		if leaked[t] {
			rep.Violations = append(rep.Violations, Violation{Class: "deadlock", Task: t, Op: "system-font-cache",
				Detail: fmt.Sprintf("task %d is blocked forever outside the simulator's primitives after every other task has finished", t), Sig: "deadlock:blocked-forever"})
			continue
		}
		for s, r := range recs[t] {
			if !r.done {
				rep.Violations = append(rep.Violations, Violation{Class: "deadlock-or-budget", Task: t, Step: s, Op: r.in.Op,
					Detail: "call did not complete in the simulation (task aborted)", Sig: "abort:" + r.in.Op})
				continue
			}
			rh.str(r.out.S)
			hist.Ops = append(hist.Ops, porcupine.Operation{ClientId: t, Input: r.in, Call: r.call, Output: r.out, Return: r.ret})
		}
	}
	rep.ResultHash = rh.h
	out.Sys = hist
	st := rep.Stats
	rep.Nontrivial = len(spec.Tasks) >= 2 && st.SwitchesInOp >= 1 && (st.Contended >= 1 || st.SharedSites >= 1)
	return nil
}

// CheckSysHistory decides linearizability of a recorded history (outside the synctest bubble).
func CheckSysHistory(h *SysHistory) (ok bool, unknown bool, detail string) {
	model := porcupine.Model{
		Init: func() interface{} { return 0 },
		Step: func(state, input, output interface{}) (bool, interface{}) {
			s := state.(int)
			in := input.(sysIn)
			o := output.(sysOut)
			if in.Op == "syscache" {
				// replaces the list; must report success
				return o.S == "ok", in.K
			}
			// lookups scan lazily on first use; afterwards "never scanned" and "default list"
			// answer alike, so both are state 0
			want, known := h.Table[[4]int{s, opCode(in.Op), in.Name, in.Style}]
			if !known {
				return false, s
			}
			return o.S == want, s
		},
		DescribeOperation: func(input, output interface{}) string {
			in := input.(sysIn)
			if in.Op == "syscache" {
				return fmt.Sprintf("CacheSystemFonts(dirs%d) -> %s", in.K, output.(sysOut).S)
			}
			return fmt.Sprintf("%s(%q,%d) -> %s", in.Op, sysNames[in.Name], in.Style, output.(sysOut).S)
		},
	}
	res := porcupine.CheckOperations(model, h.Ops)
	if res {
		return true, false, ""
	}
	d := "history (client: call..return op):"
	ops := append([]porcupine.Operation(nil), h.Ops...)
	sort.Slice(ops, func(i, j int) bool { return ops[i].Call < ops[j].Call })
	for _, o := range ops {
		d += fmt.Sprintf("\n  task %d: [%d..%d] %s", o.ClientId, o.Call, o.Return, model.DescribeOperation(o.Input, o.Output))
	}
	return false, false, d
}
