package c20

import (
	"math"

	"verif/simrt"
)

// ---- shapes ---------------------------------------------------------------------------------

type latticeCfg struct {
	n    int     // grid points per axis
	cell float64 // grid pitch
	jit  float64 // probability that a coordinate is perturbed by k*1e-9
}

func (l latticeCfg) coord(r *simrt.Rand) float64 {
	v := float64(r.Intn(l.n)) * l.cell
	if l.jit > 0 && r.Bool(l.jit) {
		v += float64(r.Intn(7)-3) * 1e-9
	}
	return v
}

func polygon(pts [][2]float64, closed bool) []Seg {
	var s []Seg
	for i, p := range pts {
		c := "L"
		if i == 0 {
			c = "M"
		}
		s = append(s, Seg{C: c, A: []float64{p[0], p[1]}})
	}
	if closed {
		s = append(s, Seg{C: "Z"})
	}
	return s
}

func genLattice(r *simrt.Rand, l latticeCfg) *Shape {
	sh := &Shape{Family: "lattice"}
	for c, nc := 0, 1+r.Intn(3); c < nc; c++ {
		n := 3 + r.Intn(6)
		pts := make([][2]float64, n)
		for i := range pts {
			pts[i] = [2]float64{l.coord(r), l.coord(r)}
		}
		sh.Segs = append(sh.Segs, polygon(pts, true)...)
	}
	return sh
}

func genRects(r *simrt.Rand, l latticeCfg) *Shape {
	sh := &Shape{Family: "rects"}
	for c, nc := 0, 1+r.Intn(4); c < nc; c++ {
		x0, y0 := l.coord(r), l.coord(r)
		w, h := float64(1+r.Intn(l.n-1))*l.cell, float64(1+r.Intn(l.n-1))*l.cell
		pts := [][2]float64{{x0, y0}, {x0 + w, y0}, {x0 + w, y0 + h}, {x0, y0 + h}}
		if r.Bool(0.3) { // clockwise
			pts[1], pts[3] = pts[3], pts[1]
		}
		sh.Segs = append(sh.Segs, polygon(pts, true)...)
	}
	return sh
}

func genStar(r *simrt.Rand, l latticeCfg) *Shape {
	n := 5 + r.Intn(5)
	d := 2 + r.Intn(2)
	rad := (1 + float64(r.Intn(3))) * l.cell
	cx, cy := l.coord(r), l.coord(r)
	pts := make([][2]float64, n)
	for i := range pts {
		a := 2 * math.Pi * float64((i*d)%n) / float64(n)
		pts[i] = [2]float64{cx + rad*math.Cos(a), cy + rad*math.Sin(a)}
	}
	return &Shape{Family: "star", Segs: polygon(pts, true)}
}

func genCircle(r *simrt.Rand, l latticeCfg) *Shape {
	rx := (0.5 + float64(r.Intn(3))) * l.cell
	ry := rx
	if r.Bool(0.4) {
		ry = (0.5 + float64(r.Intn(3))) * l.cell
	}
	cx, cy := l.coord(r), l.coord(r)
	rot := 0.0
	if r.Bool(0.3) {
		rot = float64(r.Intn(12)) * 15
	}
	return &Shape{Family: "ellipse", Segs: []Seg{
		{C: "M", A: []float64{cx + rx, cy}},
		{C: "A", A: []float64{rx, ry, rot, 0, 1, cx - rx, cy}},
		{C: "A", A: []float64{rx, ry, rot, 0, 1, cx + rx, cy}},
		{C: "Z"},
	}}
}

func genBlob(r *simrt.Rand, l latticeCfg) *Shape {
	sh := &Shape{Family: "blob"}
	n := 3 + r.Intn(4)
	sh.Segs = append(sh.Segs, Seg{C: "M", A: []float64{l.coord(r), l.coord(r)}})
	for i := 0; i < n; i++ {
		switch r.Intn(3) {
		case 0:
			sh.Segs = append(sh.Segs, Seg{C: "L", A: []float64{l.coord(r), l.coord(r)}})
		case 1:
			sh.Segs = append(sh.Segs, Seg{C: "Q", A: []float64{l.coord(r), l.coord(r), l.coord(r), l.coord(r)}})
		default:
			sh.Segs = append(sh.Segs, Seg{C: "C", A: []float64{l.coord(r), l.coord(r), l.coord(r), l.coord(r), l.coord(r), l.coord(r)}})
		}
	}
	sh.Segs = append(sh.Segs, Seg{C: "Z"})
	return sh
}

func genPolyline(r *simrt.Rand, l latticeCfg) *Shape {
	n := 2 + r.Intn(6)
	pts := make([][2]float64, n)
	for i := range pts {
		pts[i] = [2]float64{l.coord(r), l.coord(r)}
	}
	return &Shape{Family: "polyline", Segs: polygon(pts, r.Bool(0.3))}
}

// genOpenLines: several open polylines on the lattice. Open subject paths make the result builder
// of the sweep walk back into squares it has already left.
func genOpenLines(r *simrt.Rand, l latticeCfg) *Shape {
	sh := &Shape{Family: "openlines"}
	for c, nc := 0, 1+r.Intn(3); c < nc; c++ {
		n := 2 + r.Intn(5)
		pts := make([][2]float64, n)
		for i := range pts {
			pts[i] = [2]float64{l.coord(r), l.coord(r)}
		}
		sh.Segs = append(sh.Segs, polygon(pts, false)...)
	}
	return sh
}

// genManyContours: a grid of 32-60 small closed shapes (what outlined text or a tiling looks like):
// operations that treat subpaths one by one get enough of them to take a "large input" path.
func genManyContours(r *simrt.Rand, l latticeCfg) *Shape {
	sh := &Shape{Family: "many"}
	n := 32 + r.Intn(29)
	cols := 8
	for i := 0; i < n; i++ {
		x, y := float64(i%cols)*l.cell*1.5, float64(i/cols)*l.cell*1.5
		w, h := l.cell*(0.4+0.2*float64(r.Intn(3))), l.cell*(0.4+0.2*float64(r.Intn(3)))
		switch r.Intn(3) {
		case 0:
			sh.Segs = append(sh.Segs, polygon([][2]float64{{x, y}, {x + w, y}, {x + w, y + h}, {x, y + h}}, true)...)
		case 1:
			sh.Segs = append(sh.Segs, polygon([][2]float64{{x, y}, {x + w, y + h/2}, {x, y + h}}, true)...)
		default:
			sh.Segs = append(sh.Segs, Seg{C: "M", A: []float64{x + w, y + h/2}}, Seg{C: "A", A: []float64{w / 2, h / 2, 0, 0, 1, x, y + h/2}}, Seg{C: "A", A: []float64{w / 2, h / 2, 0, 0, 1, x + w, y + h/2}}, Seg{C: "Z"})
		}
	}
	return sh
}

// genBigPolygon: ONE flat contour with 31-90 vertices (regular-ish star/zigzag ring on the lattice
// scale): code paths that treat "large" subpaths differently get one.
func genBigPolygon(r *simrt.Rand, l latticeCfg) *Shape {
	n := 31 + r.Intn(60)
	cx, cy := l.coord(r)+l.cell, l.coord(r)+l.cell
	r0 := (2 + float64(r.Intn(3))) * l.cell
	pts := make([][2]float64, n)
	for i := range pts {
		a := 2 * math.Pi * float64(i) / float64(n)
		rad := r0 * (0.6 + 0.4*float64((i*7+r.Intn(2))%3)/2)
		pts[i] = [2]float64{cx + rad*math.Cos(a), cy + rad*math.Sin(a)}
	}
	return &Shape{Family: "bigpolygon", Segs: polygon(pts, r.Bool(0.85))}
}

func genShape(r *simrt.Rand, l latticeCfg) *Shape {
	switch x := r.Intn(100); {
	case x < 35:
		return genLattice(r, l)
	case x < 55:
		return genRects(r, l)
	case x < 68:
		return genStar(r, l)
	case x < 80:
		return genCircle(r, l)
	case x < 88:
		return genBlob(r, l)
	case x < 93:
		return genBigPolygon(r, l)
	default:
		return genPolyline(r, l)
	}
}

func cloneShape(s *Shape) *Shape {
	c := &Shape{Family: s.Family}
	for _, g := range s.Segs {
		c.Segs = append(c.Segs, Seg{C: g.C, A: append([]float64(nil), g.A...)})
	}
	return c
}

// derived second operand: translate by lattice steps / identical / reversed point order
func deriveShape(r *simrt.Rand, a *Shape, l latticeCfg) *Shape {
	b := cloneShape(a)
	b.Family = a.Family + "+shift"
	dx, dy := float64(r.Intn(3)-1)*l.cell, float64(r.Intn(3)-1)*l.cell
	if r.Bool(0.3) {
		dx, dy = dx/2, dy/2
	}
	for i := range b.Segs {
		g := &b.Segs[i]
		switch g.C {
		case "M", "L":
			g.A[0] += dx
			g.A[1] += dy
		case "Q":
			for k := 0; k < 4; k += 2 {
				g.A[k] += dx
				g.A[k+1] += dy
			}
		case "C":
			for k := 0; k < 6; k += 2 {
				g.A[k] += dx
				g.A[k+1] += dy
			}
		case "A":
			g.A[5] += dx
			g.A[6] += dy
		}
	}
	return b
}

// ---- steps ----------------------------------------------------------------------------------

var boolOps = []string{"and", "or", "xor", "not", "div"}

// genCurvy: open or closed path mixing arcs, quadratic and cubic Béziers (S-shaped cubics have
// inflection points): the curve kinds take different code paths in SplitAt/Dash/Flatten/Stroke.
func genCurvy(r *simrt.Rand, l latticeCfg) *Shape {
	sh := &Shape{Family: "curvy"}
	x, y := l.coord(r), l.coord(r)
	sh.Segs = append(sh.Segs, Seg{C: "M", A: []float64{x, y}})
	for i, n := 0, 1+r.Intn(3); i < n; i++ {
		nx, ny := x+(1+float64(r.Intn(3)))*l.cell, y+float64(r.Intn(3)-1)*l.cell
		switch r.Intn(4) {
		case 0:
			rad := (1 + float64(r.Intn(2))) * l.cell * 1.5
			sh.Segs = append(sh.Segs, Seg{C: "A", A: []float64{rad, rad * (0.5 + 0.5*float64(r.Intn(2))), float64(r.Intn(4)) * 30, 0, float64(r.Intn(2)), nx, ny}})
		case 1:
			sh.Segs = append(sh.Segs, Seg{C: "Q", A: []float64{(x + nx) / 2, y + 2*l.cell, nx, ny}})
		case 2: // cubic without inflection
			sh.Segs = append(sh.Segs, Seg{C: "C", A: []float64{x + l.cell/2, y + 2*l.cell, nx - l.cell/2, ny + 2*l.cell, nx, ny}})
		default: // S-shaped cubic
			sh.Segs = append(sh.Segs, Seg{C: "C", A: []float64{x + l.cell, y + 2*l.cell, nx - l.cell, ny - 2*l.cell, nx, ny}})
		}
		x, y = nx, ny
	}
	if r.Bool(0.3) {
		sh.Segs = append(sh.Segs, Seg{C: "Z"})
	}
	return sh
}

func genGeometryStep(r *simrt.Rand, l latticeCfg, tols []float64) Step {
	curvyOr := func() *Shape {
		if r.Bool(0.6) {
			return genCurvy(r, l)
		}
		return genShape(r, l)
	}
	switch x := r.Intn(100); {
	case x < 40:
		a := genShape(r, l)
		if r.Bool(0.25) {
			a = genOpenLines(r, l)
		}
		var b *Shape
		if r.Bool(0.35) {
			b = deriveShape(r, a, l)
		} else {
			b = genShape(r, l)
		}
		return Step{Op: boolOps[r.Intn(len(boolOps))], A: a, B: b, AsPaths: r.Bool(0.3)}
	case x < 52:
		return Step{Op: "settle", A: genShape(r, l), FillRule: r.Intn(4), AsPaths: r.Bool(0.3)}
	case x < 65:
		a := genShape(r, l)
		if r.Bool(0.25) {
			a = genCurvy(r, l)
		} else if r.Bool(0.08) {
			a = genManyContours(r, l)
		}
		return Step{Op: "stroke", A: a, W: []float64{0.3, 1, 2.5, l.cell}[r.Intn(4)], Cap: r.Intn(3), Join: r.Intn(6), Tol: tols[r.Intn(len(tols))]}
	case x < 73:
		w := []float64{0.3, 1, 2.5}[r.Intn(3)]
		if r.Bool(0.5) {
			w = -w
		}
		return Step{Op: "offset", A: genShape(r, l), W: w, Tol: tols[r.Intn(len(tols))]}
	case x < 79:
		a := curvyOr()
		if r.Bool(0.1) {
			a = genManyContours(r, l)
		}
		return Step{Op: "flatten", A: a, Tol: tols[r.Intn(len(tols))]}
	case x < 82:
		return Step{Op: []string{"clip", "simplify", "gridsnap"}[r.Intn(3)], A: genShape(r, l), W: l.cell * (0.5 + float64(r.Intn(3))), Tol: []float64{0.1, 0.5, 2}[r.Intn(3)]}
	case x < 86:
		switch r.Intn(3) {
		case 0:
			return Step{Op: "measure", A: curvyOr(), FillRule: r.Intn(4)}
		case 1:
			return Step{Op: "split", A: curvyOr(), W: l.cell * (0.3 + float64(r.Intn(4))), Tol: []float64{0.2, 1}[r.Intn(2)], AsPaths: r.Bool(0.5)}
		default:
			return Step{Op: "svgpath", A: curvyOr(), Opt: []int{0, 30, 90, 135}[r.Intn(4)], W: []float64{1, 0.5, -1}[r.Intn(3)]}
		}
	case x < 96:
		n := 1 + r.Intn(3)
		d := make([]float64, n)
		for i := range d {
			d[i] = []float64{0.5, 1, 2, 3.5}[r.Intn(4)] * l.cell / 2
		}
		return Step{Op: "dash", A: curvyOr(), Dashes: d, Offset: float64(r.Intn(4)) - 1}
	default:
		return Step{Op: "tile", A: genShape(r, latticeCfg{n: 3, cell: l.cell / 2}), B: genRects(r, l), W: l.cell * 1.5}
	}
}

var commonSVG = []string{
	"M0 0L10 0L10 10L0 10z",
	"M0 0C2 4 6 4 8 0S14 -4 16 0L16 6Q8 10 0 6zM5 0A5 5 0 0 1 5 10A5 5 0 0 1 5 0zM20 0L25 0L25 5",
}

var sampleTexts = []string{
	"Hello, world",
	"The quick brown fox jumps over the lazy dog",
	"fi ffl AVATAR To",
	"a b",
	"Lorem ipsum dolor sit amet, consectetur adipiscing elit",
	"x",
	"Zwölf Boxkämpfer jagen Viktor",
	"abc שלום עולם def 123", // bidi: a right-to-left run inside left-to-right text
	"שלום עולם",             // right-to-left only
}

var vocabulary = []string{"a", "in", "of", "the", "and", "to", "it", "was", "fountain", "golden", "forest", "favorite", "princess", "extraordinarily", "that", "when", "high", "day", "took", "close",
	"into", "king's", "castle", "well", "whenever", "youngest", "beautiful", "sun", "itself", "astonished", "old", "times", "wishing", "still", "helped", "one", "lived", "whose",
	"daughters", "were", "all", "but", "so", "which", "has", "seen", "much", "shone", "her", "face", "by", "lay", "great", "dark", "under", "lime-tree", "incomprehensibilities"}

// genParagraph: a paragraph of n words from a small vocabulary with some very long words: narrow
// columns then need loose lines (the line breaker's harder paths).
func genParagraph(r *simrt.Rand, n int) string {
	out := ""
	for i := 0; i < n; i++ {
		if i > 0 {
			out += " "
		}
		out += vocabulary[r.Intn(len(vocabulary))]
	}
	return out
}

// genTextStep: colW is the run's "column width" (most boxes of a run share it, like the columns of
// one document).
func genTextStep(r *simrt.Rand, nfonts int, colW float64) Step {
	st := Step{
		Font:    r.Intn(nfonts),
		Text:    sampleTexts[r.Intn(len(sampleTexts))],
		Size:    []float64{8, 12, 10.5, 24}[r.Intn(4)],
		Style:   r.Intn(4),
		Variant: r.Intn(3),
		Deco:    r.Intn(8),
		HAlign:  r.Intn(4),
		VAlign:  r.Intn(4),
	}
	switch r.Intn(4) {
	case 0:
		st.Op = "textline"
	case 1:
		st.Op = "textbox"
		st.Width = []float64{0, 30, 60, 100}[r.Intn(4)]
		st.Height = []float64{0, 0, 20, 50}[r.Intn(4)]
	case 2:
		// a paragraph in the run's column
		st.Op = "textbox"
		st.Text = genParagraph(r, 12+r.Intn(40))
		st.Size = []float64{10, 12, 12, 14}[r.Intn(4)]
		st.Width = colW
		if r.Bool(0.2) {
			st.Width = []float64{20, 25, 34, 45, 60}[r.Intn(5)]
		}
		st.Variant, st.Deco = 0, 0
	default:
		st.Op = "richtext"
		if r.Bool(0.2) {
			st.WMode, st.Orient = 1+r.Intn(2), r.Intn(3)
		}
		st.Width = []float64{40, 60, 100}[r.Intn(3)]
		if r.Bool(0.4) {
			st.Width = colW
			st.Text = genParagraph(r, 10+r.Intn(25))
		}
		st.Height = []float64{0, 30}[r.Intn(2)]
	}
	if r.Bool(0.25) {
		st.SharedFace = 1 + r.Intn(3)
	}
	return st
}

func genFontStep(r *simrt.Rand, nfonts int) Step {
	if r.Bool(0.25) {
		return Step{Op: "familyface", Size: []float64{9, 12}[r.Intn(2)], Style: r.Intn(4), Variant: r.Intn(3), Repeat: r.Bool(0.3)}
	}
	return Step{Op: []string{"loadfont", "loadfont", "loadfontfile", "fontfamily", "systemfont", "loadmissing"}[r.Intn(6)], Font: r.Intn(nfonts), Style: r.Intn(4)}
}

func genColor(r *simrt.Rand) [4]uint8 {
	if r.Bool(0.15) {
		return [4]uint8{}
	}
	a := uint8(255)
	if r.Bool(0.2) {
		a = 128
	}
	return [4]uint8{uint8(r.Intn(4) * 85), uint8(r.Intn(4) * 85), uint8(r.Intn(4) * 85), a}
}

func genDrawing(r *simrt.Rand, l latticeCfg, nfonts int) *Drawing {
	d := &Drawing{W: 60, H: 40}
	if r.Bool(0.25) {
		d.Post = 1 + r.Intn(4)
	}
	for i, n := 0, 1+r.Intn(4); i < n; i++ {
		it := DrawItem{Fill: genColor(r), Stroke: genColor(r), Z: r.Intn(3) - 1, X: float64(r.Intn(20)), Y: float64(r.Intn(20))}
		if r.Bool(0.3) {
			it.Rot = float64(r.Intn(8)) * 45
		}
		if r.Bool(0.2) {
			it.Kind = "image"
			it.ImgW, it.ImgH = 2+r.Intn(9), 2+r.Intn(9)
			it.ImgSeed = r.Uint64()
			it.ImgKind = r.Intn(4)
			it.Res = []float64{1, 2, 0.5}[r.Intn(3)]
		} else if nfonts > 0 && r.Bool(0.45) {
			it.Kind = "text"
			it.Font = r.Intn(nfonts)
			it.Size = []float64{8, 12, 18}[r.Intn(3)]
			it.Text = sampleTexts[r.Intn(len(sampleTexts))]
			it.Deco = r.Intn(8)
			it.Style = r.Intn(4)
			if r.Bool(0.3) {
				it.SharedFace = 1 + r.Intn(3)
			}
		} else {
			it.Kind = "path"
			it.Shape = genShape(r, l)
			if r.Bool(0.4) {
				it.Paint = 1 + r.Intn(9) // 5-9: paint objects shared by all canvases of the run
			}
			if r.Bool(0.6) {
				it.SW = []float64{0.2, 0.5, 1.5}[r.Intn(3)]
			}
			if it.SW > 0 && r.Bool(0.35) {
				it.Dashes = [][]float64{{1, 0.5}, {2, 1, 0.5}, {0.7}, {3, 1}, {0.5, 0.5, 2, 0.5}}[r.Intn(5)]
			}
		}
		d.Items = append(d.Items, it)
	}
	return d
}

var formats = []string{"pdf", "svg", "ps", "eps", "png"}

// genDrawThenRender returns a draw call and the render call that follows it later in the same task.
func genDrawThenRender(r *simrt.Rand, l latticeCfg, nfonts int) (Step, Step) {
	rs := genRenderStep(r, l, nfonts)
	draw := Step{Op: "draw", Draw: rs.Draw}
	rs.Op, rs.Draw, rs.Repeat = "renderdrawn", nil, false
	return draw, rs
}

func genRenderStep(r *simrt.Rand, l latticeCfg, nfonts int) Step {
	st := Step{Op: "render", Draw: genDrawing(r, l, nfonts), Format: formats[r.Intn(len(formats))], Opt: r.Intn(8)}
	for _, it := range st.Draw.Items {
		if it.Kind == "image" && r.Bool(0.5) {
			st.Format = []string{"pdf", "pdf", "svg", "png"}[r.Intn(4)] // image embedding paths
		}
		// hatch patterns are only drawn by the rasterizer (the other renderers skip them)
		if (it.Paint == 3 || it.Paint == 4 || it.Paint == 7 || it.Paint == 8) && r.Bool(0.6) {
			st.Format = "png"
		}
	}
	if r.Bool(0.1) {
		st.FailAt = 1 + r.Intn(12) // disk full / EIO on the k-th write of the renderer
	} else if r.Bool(0.3) {
		st.Repeat = true
	}
	return st
}

// ---- runs -----------------------------------------------------------------------------------

var fontTable = []string{"DejaVuSerif.ttf", "EBGaramond12-Regular.otf", "Dynalight-Regular.otf", "noname:DejaVuSerif.ttf", "noname:EBGaramond12-Regular.otf"}

// Profiles and their weights; the driver can restrict the set with VERIF_PROFILES.
var Profiles = []struct {
	Name   string
	Weight int
}{
	{"geometry", 50},
	{"fonts", 8},
	{"text", 14},
	{"render", 14},
	{"mixed", 14},
	{"syscache", 6},
	{"long1", 0},     // one or two tasks with 30-60 cheap calls each: state that builds up over a long history (selected explicitly by the driver's "long" batch)
	{"geometry1", 0}, // one task, 3-8 geometry calls: pool behaviour within and between the calls of one caller (selected explicitly by the driver's "solo" batch)
}

// GenRun derives the complete, explicit specification of run #run of a batch.
func GenRun(verifSeed uint64, run int, tier string, profiles []string) *RunSpec {
	seed := simrt.Mix(verifSeed, uint64(run))
	cfgR := simrt.NewRand(simrt.MixS(seed, "config"))
	wl := simrt.NewRand(simrt.MixS(seed, "workload"))

	spec := &RunSpec{VerifSeed: verifSeed, Run: run, RunSeed: seed}
	// profile
	tot := 0
	allowed := func(n string) bool {
		if len(profiles) == 0 {
			return true
		}
		for _, p := range profiles {
			if p == n {
				return true
			}
		}
		return false
	}
	for _, p := range Profiles {
		if allowed(p.Name) {
			tot += p.Weight
		}
	}
	if tot == 0 { // only zero-weight profiles selected explicitly
		for _, p := range Profiles {
			if allowed(p.Name) {
				spec.Profile = p.Name
			}
		}
		tot = 1
	}
	x := cfgR.Intn(tot)
	for _, p := range Profiles {
		if !allowed(p.Name) {
			continue
		}
		if x < p.Weight {
			spec.Profile = p.Name
			break
		}
		x -= p.Weight
	}

	// tunables (swarm knobs)
	spec.Tunables = Tunables{
		Tolerance:      []float64{0.01, 0.01, 0.1, 0.001}[cfgR.Intn(4)],
		PixelTolerance: []float64{0.1, 0.1, 0.5}[cfgR.Intn(3)],
		Precision:      []int{8, 8, 5, 12}[cfgR.Intn(4)],
		FastStroke:     cfgR.Bool(0.15),
	}
	l := latticeCfg{n: 3 + cfgR.Intn(5), cell: []float64{1, 10, 10, 0.5, 2.5}[cfgR.Intn(5)]}
	if cfgR.Bool(0.35) {
		l.jit = []float64{0.05, 0.2, 0.5}[cfgR.Intn(3)]
	}
	tols := []float64{spec.Tunables.Tolerance, 0.05, 0.3}

	ntasks := 1 + cfgR.Intn(6)
	if cfgR.Bool(0.5) && ntasks < 2 {
		ntasks = 2
	}
	maxSteps := 1 + cfgR.Intn(5)
	if tier == "thorough" && cfgR.Bool(0.2) {
		maxSteps += 3
	}

	// font table for this run
	nf := 0
	if spec.Profile == "geometry1" {
		ntasks = 1
		maxSteps = 3 + cfgR.Intn(6)
	}
	longSteps := 0
	if spec.Profile == "long1" {
		ntasks = 1
		if cfgR.Intn(4) == 0 {
			ntasks = 2
		}
		longSteps = 30 + cfgR.Intn(31)
		l = latticeCfg{n: 3, cell: []float64{1, 10, 2.5}[cfgR.Intn(3)]} // small operands: many calls, little work each
	}
	if spec.Profile == "syscache" {
		if ntasks < 2 {
			ntasks = 2
		}
		if ntasks > 4 {
			ntasks = 4
		}
	}
	if spec.Profile != "geometry" && spec.Profile != "syscache" && spec.Profile != "geometry1" {
		nf = 1 + cfgR.Intn(3)
		perm := cfgR.Perm(len(fontTable))
		for i := 0; i < nf; i++ {
			spec.Fonts = append(spec.Fonts, fontTable[perm[i]])
		}
		if spec.Profile == "fonts" && cfgR.Bool(0.7) {
			// make sure a name-less font is around
			spec.Fonts[0] = fontTable[3+cfgR.Intn(2)]
		}
	}

	colW := []float64{20, 25, 34, 34, 45, 60}[cfgR.Intn(6)]
	for t := 0; t < ntasks; t++ {
		ts := TaskSpec{MapSeed: simrt.Mix(seed, 0x6d6170, uint64(t))}
		ns := 1 + wl.Intn(maxSteps)
		if longSteps > 0 {
			ns = longSteps
		}
		for s := 0; s < ns; s++ {
			var st Step
			switch spec.Profile {
			case "long1":
				switch y := wl.Intn(20); {
				case y < 6:
					st = genGeometryStep(wl, l, tols)
				case y < 15:
					// short texts in many sizes, fonts and styles: many distinct keys for whatever is cached
					st = genTextStep(wl, nf, colW)
					if len(st.Text) > 60 || wl.Bool(0.7) {
						st.Text = genParagraph(wl, 1+wl.Intn(3)) // a few words: thousands of distinct short strings
					}
					st.Size = 6 + float64(wl.Intn(40))*0.5
				case y < 17:
					st = Step{Op: "svgpath", A: genShape(wl, l), Opt: []int{0, 30, 90, 135}[wl.Intn(4)], W: []float64{1, 0.5, -1}[wl.Intn(3)]}
				case y < 18:
					st = Step{Op: "fontinfo", Font: wl.Intn(nf)}
				default:
					st = Step{Op: "familyface", Size: 6 + float64(wl.Intn(40))*0.5, Style: wl.Intn(4), Variant: wl.Intn(3)}
				}
			case "geometry", "geometry1":
				st = genGeometryStep(wl, l, tols)
			case "fonts":
				if wl.Bool(0.8) {
					st = genFontStep(wl, nf)
				} else {
					st = genTextStep(wl, nf, colW)
				}
			case "syscache":
				switch y := wl.Intn(20); {
				case y < 9:
					st = Step{Op: "sysfind", Font: wl.Intn(5), Style: wl.Intn(2)}
				case y < 13:
					st = Step{Op: "sysload", Font: wl.Intn(5), Style: 0}
				default:
					st = Step{Op: "syscache", Opt: 1 + wl.Intn(2)}
				}
			case "text":
				st = genTextStep(wl, nf, colW)
			case "render":
				if wl.Bool(0.15) {
					st = Step{Op: "fontinfo", Font: wl.Intn(nf)}
				} else {
					st = genRenderStep(wl, l, nf)
				}
			default:
				switch y := wl.Intn(10); {
				case y < 4:
					st = genGeometryStep(wl, l, tols)
				case y < 6:
					st = genTextStep(wl, nf, colW)
				case y < 7:
					if wl.Bool(0.3) {
						st = Step{Op: "fontinfo", Font: wl.Intn(nf)}
					} else {
						st = genFontStep(wl, nf)
					}
				default:
					st = genRenderStep(wl, l, nf)
				}
			}
			switch st.Op {
			case "and", "or", "xor", "not", "div", "settle", "stroke", "offset", "dash":
				if !st.AsPaths && s > 0 && wl.Bool(0.3) {
					st.ChainA = true // the subject is what this task's previous call returned
				}
				if !st.AsPaths && wl.Bool(0.15) {
					st.Repeat = true
				}
			case "flatten":
				if wl.Bool(0.15) {
					st.Repeat = true
				}
			case "measure", "split":
				if s > 0 && wl.Bool(0.5) {
					st.ChainA = true // read-only use of the previous result
				}
			case "richtext":
				if wl.Bool(0.3) {
					st.Repeat = true
				}
			}
			if st.AsPaths {
				switch st.Op {
				case "and", "or", "xor", "not", "div", "settle":
					// a list of paths may hold empty ones (results of earlier operations often are):
					// a code path of its own in the sweep's set-up (s45). Stream of its own.
					if x := simrt.Mix(seed, 0xe5b, uint64(t), uint64(s)); x%100 < 25 {
						st.EmptySub = 1 + int((x>>8)%3)
					}
				}
			}
			if st.Op == "measure" && simrt.Mix(seed, 0x5fa, uint64(t), uint64(s))%100 < 60 {
				// neither call reaches a decision point or returns an object, so turning one into the
				// other leaves the schedules of the run's other calls what they were
				st = Step{Op: "svgpath", A: st.A, Opt: 30, W: 1}
			}
			if st.Op == "svgpath" {
				// most of these calls parse one of a few strings that other calls of the run parse too
				// (stream of its own, see below)
				if x := simrt.Mix(seed, 0x5f9, uint64(t), uint64(s)); x%100 < 85 {
					st.SVG = commonSVG[(x>>8)%uint64(len(commonSVG))]
				}
			}
			if spec.Profile == "geometry1" {
				// paths with 32-60 contours for the calls that otherwise never get one (a change may
				// treat "many subpaths" differently, s34). Drawn from a stream of its own and only in
				// the single-task batch, so that every other run stays what it was.
				switch st.Op {
				case "dash", "offset", "settle":
					if x := simrt.Mix(seed, 0xda54, uint64(t), uint64(s)); x%100 < 12 && !st.ChainA {
						st.A = genManyContours(simrt.NewRand(x), l)
					}
				}
			}
			if st.Op == "render" && st.FailAt == 0 && wl.Bool(0.3) {
				// draw now, render later: other calls of this task (and other tasks) come in between
				d, rr := genDrawThenRender(wl, l, nf)
				ts.Steps = append(ts.Steps, d)
				if wl.Bool(0.5) {
					ts.Steps = append(ts.Steps, genGeometryStep(wl, l, tols))
				}
				st = rr
			}
			ts.Steps = append(ts.Steps, st)
		}
		spec.Tasks = append(spec.Tasks, ts)
	}
	spec.MapSeed2 = simrt.Mix(seed, 0x6d617032)
	spec.ColdStart = cfgR.Bool(0.3)

	// simulator configuration
	sc := simrt.Config{Seed: simrt.MixS(seed, "sim")}
	sc.Sched = cfgR.Intn(4)
	sc.StayProb = []float64{0.5, 0.8, 0.95, 0.99}[cfgR.Intn(4)]
	sc.PCTDepth = 1 + cfgR.Intn(6)
	sc.PCTLen = 200 * ntasks * maxSteps
	switch cfgR.Intn(5) {
	case 0: // like a lone goroutine on the real pool
		sc.PoolRecent = 1
	case 1: // adversarial: oldest object first
		sc.PoolOldest, sc.PoolRecent = 3, 1
	case 2:
		sc.PoolRandom, sc.PoolRecent, sc.PoolFresh = 3, 1, 1
	case 3: // like the -race runtime: drops a quarter
		sc.PoolRecent, sc.PoolFresh = 3, 1
	default:
		sc.PoolRecent, sc.PoolOldest, sc.PoolRandom, sc.PoolFresh = 2, 2, 2, 1
	}
	sc.DropRate = []float64{0, 0, 0.001, 0.01, 0.05}[cfgR.Intn(5)]
	sc.LivePct = []int{100, 70, 70, 40}[cfgR.Intn(4)]
	switch spec.Profile {
	case "geometry", "geometry1", "fonts", "text", "syscache", "long1":
		// time passes between calls in two thirds of the runs whose results carry no time stamps
		// (PDF/PS CreationDate, head.modified of embedded fonts); not drawn from cfgR so that the
		// programs and schedules of all runs stay what they were before this fault kind existed
		sc.ClockSkipPct = []int{0, 15, 40}[simrt.Mix(seed, 0xc10c)%3]
	}
	spec.Sim = sc
	return spec
}
