package c20

import (
	"fmt"
	"regexp"
	"sort"
	"syscall"

	"github.com/tdewolff/canvas"
	"github.com/tdewolff/canvas/renderers/pdf"
	"github.com/tdewolff/canvas/renderers/ps"
	"github.com/tdewolff/canvas/renderers/rasterizer"
	"github.com/tdewolff/canvas/renderers/svg"
	"github.com/tdewolff/canvas/text"

	"verif/simrt"
	"verif/simrt/ssync"
)

// StepBudget is the per-task cap on decision points in the simulation phase. The largest solo
// programs of the thorough tier make a few 10^4; two orders of magnitude above that is
// non-termination under a schedule, not slowness.
const StepBudget = 3_000_000

// MaxSoloGets: a call that alone passes more decision points (pool, lock, once, map and atomic
// operations, yield sites) than this - a sweep that keeps splitting segments for seconds - is too
// expensive to simulate usefully; the run is discarded and counted.
const MaxSoloGets = 1_000_000

// Harness holds what is constant over a worker's life.
type Harness struct {
	Resources   string
	FontDir     string
	Scratch     string
	KeepTrace   bool
	NSites      int
	soloGets    []int // pool requests of each task's calls when run alone (last solo pass)
	maxSoloGets int
	// SimulatedReference: run the reference executions under the simulator too (one task, pools
	// that never recycle). Needed when the code under test starts goroutines of its own: with real
	// goroutines the "alone" result would itself depend on the Go scheduler.
	SimulatedReference bool
	// QuiescenceWait is testing/synctest.Wait when running inside a bubble (see simrt.SetQuiescenceWait).
	QuiescenceWait func()
	// Progress is updated before each phase (read by the CPU watchdog).
	Progress func(run int, phase string)
}

// Outcome is the full record of one executed run (the RunReport is its summary).
type Outcome struct {
	Spec     *RunSpec
	Ref      [][]Result
	Ref2     [][]Result
	Sim      [][]Result
	Recorded *simrt.Sparse
	Stats    *simrt.Stats
	Trace    []simrt.TraceEvent
	Sys      *SysHistory
}

func resetGlobalsOnly() {
	canvas.VerifResetGlobals()
	text.VerifResetGlobals()
	pdf.VerifResetGlobals()
	svg.VerifResetGlobals()
	ps.VerifResetGlobals()
	rasterizer.VerifResetGlobals()
	simrt.ResetPtrs()
}

// resetGlobals puts package state back to a fresh process's and re-applies the run's tunables (a
// tunable that the library writes somewhere is itself part of the reset state).
func resetGlobals(spec *RunSpec) {
	resetGlobalsOnly()
	setTunables(spec.Tunables)
}

type savedTunables struct {
	tol, ptol float64
	prec      int
	fast      bool
}

func setTunables(t Tunables) savedTunables {
	s := savedTunables{canvas.Tolerance, canvas.PixelTolerance, canvas.Precision, canvas.FastStroke}
	canvas.Tolerance, canvas.PixelTolerance, canvas.Precision, canvas.FastStroke = t.Tolerance, t.PixelTolerance, t.Precision, t.FastStroke
	return s
}

func (s savedTunables) restore() {
	canvas.Tolerance, canvas.PixelTolerance, canvas.Precision, canvas.FastStroke = s.tol, s.ptol, s.prec, s.fast
}

func cpuMS() float64 {
	var ru syscall.Rusage
	syscall.Getrusage(syscall.RUSAGE_SELF, &ru)
	return float64(ru.Utime.Sec+ru.Stime.Sec)*1e3 + float64(ru.Utime.Usec+ru.Stime.Usec)/1e3
}

func (h *Harness) progress(run int, phase string) {
	if h.Progress != nil {
		h.Progress(run, phase)
	}
}

// solo executes every call of every task program alone: fresh package state, freshly loaded
// fonts, no recycling. This is "the result it returns when run alone". only (if not nil) selects
// the calls to execute; multi[t][s] reports whether the call ranged over a map with >= 2 keys.
func (h *Harness) solo(spec *RunSpec, seedOf func(t int) uint64, only [][]bool) ([][]Result, [][]bool, error) {
	res := make([][]Result, len(spec.Tasks))
	multi := make([][]bool, len(spec.Tasks))
	h.soloGets = make([]int, len(spec.Tasks))
	h.maxSoloGets = 0
	for t := range spec.Tasks {
		order := simrt.NewRand(seedOf(t))
		res[t] = make([]Result, len(spec.Tasks[t].Steps))
		multi[t] = make([]bool, len(spec.Tasks[t].Steps))
		for s := range spec.Tasks[t].Steps {
			if only != nil && !only[t][s] {
				continue
			}
			resetGlobals(spec)
			env, err := NewEnv(h.Resources, h.FontDir, spec.Fonts, true)
			if err != nil {
				return nil, nil, err
			}
			env.Last = make([]*canvas.Path, len(spec.Tasks))
			env.Drawn = make([]*drawn, len(spec.Tasks))
			simrt.ResetRangeCounts()
			simrt.SetSoloOrder(order)
			ssync.ResetSoloGets()
			simrt.ResetSoloOps()
			exec := func() {
				// alone = the calls this one depends on (the draw call of a "renderdrawn", the chain of
				// calls whose returned path is this call's operand), then the call itself
				first := s
				for first > 0 {
					st := &spec.Tasks[t].Steps[first]
					if st.ChainA {
						first--
						continue
					}
					break
				}
				if spec.Tasks[t].Steps[s].Op == "renderdrawn" {
					for k := s - 1; k >= 0; k-- {
						if spec.Tasks[t].Steps[k].Op == "draw" {
							first = k
							break
						}
					}
				}
				for k := first; k < s; k++ {
					if k == first || spec.Tasks[t].Steps[k].Op == "draw" || dependsOnPrev(spec.Tasks[t].Steps, k, s) {
						ExecStep(env, t, &spec.Tasks[t].Steps[k])
					}
				}
				res[t][s] = ExecStep(env, t, &spec.Tasks[t].Steps[s])
			}
			var ref *simrt.Sim
			if h.SimulatedReference {
				cfg := simrt.Config{Seed: simrt.Mix(spec.RunSeed, 0x5010, uint64(t), uint64(s)), Sched: simrt.SchedSticky, StayProb: 0.9, PoolFresh: 1, LivePct: 100,
					StepBudget: []int{StepBudget}}
				simrt.SetLiveSites(nil)
				ref = simrt.New(cfg, 1, []uint64{0}, false)
				ref.SetOrder(0, order)
				if h.QuiescenceWait != nil {
					ref.SetQuiescenceWait(h.QuiescenceWait)
				}
				simrt.CountGets(true)
				ref.Run([]func(){exec})
				simrt.CountGets(false)
				if len(ref.Stats().Leaked) > 0 {
					res[t][s] = Result{Kind: "abort", Hash: 99, Brief: "blocked forever when run alone"}
				}
			} else {
				exec()
			}
			ops := simrt.SoloOps()
			if h.SimulatedReference && ref != nil {
				ops = ref.Stats().Events
			}
			if ops > h.maxSoloGets {
				h.maxSoloGets = ops
			}
			h.soloGets[t] += ops
			simrt.SetSoloOrder(nil)
			_, m := simrt.RangeCounts()
			multi[t][s] = m > 0
		}
	}
	return res, multi, nil
}

// dependsOnPrev reports whether step k lies on the chain that feeds step s (k..s all chained).
func dependsOnPrev(steps []Step, k, s int) bool {
	for j := k + 1; j <= s; j++ {
		if !steps[j].ChainA {
			return false
		}
	}
	return true
}

// Execute runs the reference phases and the simulation phase of one run and applies the oracles.
func (h *Harness) Execute(spec *RunSpec) (*RunReport, *Outcome, error) {
	rep := &RunReport{Run: spec.Run, RunSeed: spec.RunSeed, Profile: spec.Profile, Tasks: len(spec.Tasks)}
	out := &Outcome{Spec: spec}
	for _, t := range spec.Tasks {
		rep.Steps += len(t.Steps)
		for _, s := range t.Steps {
			rep.Ops = append(rep.Ops, s.Op)
		}
	}
	saved := setTunables(spec.Tunables)
	defer saved.restore()
	races0 := simrt.RaceErrors()
	cpu0 := cpuMS()
	if spec.Profile == "syscache" {
		if err := h.executeSys(spec, rep, out); err != nil {
			return nil, nil, err
		}
		rep.Races = simrt.RaceErrors() - races0
		rep.CPUms = cpuMS() - cpu0
		return rep, out, nil
	}

	// ---- reference: every task alone, recycling off
	h.progress(spec.Run, "ref")
	ref, multi, err := h.solo(spec, func(t int) uint64 { return spec.Tasks[t].MapSeed }, nil)
	if err != nil {
		return nil, nil, err
	}
	out.Ref = ref
	for _, rs := range ref {
		for _, r := range rs {
			if r.Kind == "panic" {
				rep.RefPanics++
			}
		}
	}
	rep.RefCPUms = cpuMS() - cpu0
	soloGets := append([]int(nil), h.soloGets...)
	if h.maxSoloGets > MaxSoloGets {
		rep.Discarded = fmt.Sprintf("a call passes %d decision points when run alone (limit %d)", h.maxSoloGets, MaxSoloGets)
		rep.Stats = &simrt.Stats{ByKind: map[string]int{}}
		rep.CPUms = cpuMS() - cpu0
		return rep, out, nil
	}

	// ---- O6 repeat: a call that was asked to run twice on the very same input objects (alone)
	for t := range ref {
		for s, r := range ref[t] {
			if st := &spec.Tasks[t].Steps[s]; st.Repeat {
				rep.RepeatChecked++
				if r.RepeatDiff != "" {
					rep.Violations = append(rep.Violations, Violation{Class: "repeat", Task: t, Step: s, Op: st.Op,
						Detail: "the same call on the same input objects, alone, twice in a row: " + r.RepeatDiff, Sig: "repeat:" + opSig(st)})
				}
			}
		}
	}

	// ---- O4 determinism: the calls that ranged over a map with >= 2 keys, alone again under a
	// different (legal) map iteration order
	anyMulti := false
	for _, ms := range multi {
		for _, m := range ms {
			anyMulti = anyMulti || m
		}
	}
	if anyMulti {
		h.progress(spec.Run, "ref2")
		ref2, _, err := h.solo(spec, func(t int) uint64 { return simrt.Mix(spec.MapSeed2, uint64(t)) }, multi)
		if err != nil {
			return nil, nil, err
		}
		out.Ref2 = ref2
		for t := range ref {
			for s := range ref[t] {
				if multi[t][s] && !ref[t][s].Equal(ref2[t][s]) {
					op := spec.Tasks[t].Steps[s].Op
					rep.DetChecked++
					rep.Violations = append(rep.Violations, Violation{
						Class: "determinism", Task: t, Step: s, Op: op,
						Detail: fmt.Sprintf("same call, run alone twice with different (legal) map iteration orders: %s  vs  %s", ref[t][s].Brief, ref2[t][s].Brief),
						Sig:    "determinism:" + opSig(&spec.Tasks[t].Steps[s]),
					})
				} else if multi[t][s] {
					rep.DetChecked++
				}
			}
		}
	}

	// ---- simulation: all tasks together under the seeded scheduler, shared simulated pools
	h.progress(spec.Run, "sim")
	resetGlobals(spec)
	env, err := NewEnv(h.Resources, h.FontDir, spec.Fonts, false)
	if err != nil {
		return nil, nil, err
	}
	env.Drawn = make([]*drawn, len(spec.Tasks)) // sized up front: tasks only write their own slot
	env.Last = make([]*canvas.Path, len(spec.Tasks))
	if !spec.ColdStart {
		// warm process: the pools exist already (initialised by an earlier call)
		canvas.Rectangle(1, 1).Settle(canvas.NonZero)
	}
	cfg := spec.Sim
	if len(cfg.StepBudget) == 0 {
		// decision points allowed per task: far above what its calls need alone (pool requests are
		// about a third of the decision points of a sweep), capped
		cfg.StepBudget = make([]int, len(spec.Tasks))
		for i := range cfg.StepBudget {
			b := 200_000 + 20*soloGets[i]
			cfg.StepBudget[i] = b
		}
	}
	n := h.NSites
	if n <= 0 {
		n = 4096
	}
	live := make([]bool, n)
	for i := range live {
		live[i] = int(simrt.Mix(cfg.Seed, 0x11fe, uint64(i))%100) < cfg.LivePct
	}
	simrt.SetLiveSites(live)
	mapSeeds := make([]uint64, len(spec.Tasks))
	for t := range spec.Tasks {
		mapSeeds[t] = spec.Tasks[t].MapSeed
	}
	sim := simrt.New(cfg, len(spec.Tasks), mapSeeds, h.KeepTrace)
	res := make([][]Result, len(spec.Tasks))
	bodies := make([]func(), len(spec.Tasks))
	for t := range spec.Tasks {
		t := t
		res[t] = make([]Result, len(spec.Tasks[t].Steps))
		for s := range res[t] {
			res[t][s] = Result{Kind: "skipped", Brief: "not executed (task aborted earlier)"}
		}
		bodies[t] = func() {
			for s := range spec.Tasks[t].Steps {
				simrt.StepMark()
				var arg *canvas.Path
				if spec.Tasks[t].Steps[s].ChainA {
					arg = env.Last[t]
				}
				r := ExecStep(env, t, &spec.Tasks[t].Steps[s])
				res[t][s] = r
				if r.Kind == "abort" {
					return
				}
				// O7: paths returned by this task's earlier calls must not change behind its back
				for k := 0; k < s; k++ {
					e := &res[t][k]
					if e.again != nil && e.MutatedLater == "" {
						if h := e.again(); h != e.againHash {
							e.MutatedLater = fmt.Sprintf("the image returned by call %d (%s) was changed by the time call %d (%s) of the same task had returned", k, spec.Tasks[t].Steps[k].Op, s, spec.Tasks[t].Steps[s].Op)
						}
					}
					if h := e.Rehash(); h != 0 && h != e.Hash && e.MutatedLater == "" {
						if e.SameObject(arg) || e.SameObject(r.obj) {
							// changed by a call that was given it as an argument, or returned again as the
							// result: an aliasing matter between one caller's objects, not a C20 one
							e.Hash = h
							continue
						}
						e.MutatedLater = fmt.Sprintf("the path returned by call %d (%s) was changed by the time call %d (%s) of the same task had returned, without being an argument of it", k, spec.Tasks[t].Steps[k].Op, s, spec.Tasks[t].Steps[s].Op)
					}
				}
			}
		}
	}
	simrt.ResetRangeCounts()
	if h.QuiescenceWait != nil {
		sim.SetQuiescenceWait(h.QuiescenceWait)
	}
	sim.Run(bodies)
	simrt.SetLiveSites(nil)
	leaked := map[int]bool{}
	for _, id := range sim.Stats().Leaked {
		leaked[id] = true
		if id >= len(spec.Tasks) {
			rep.Violations = append(rep.Violations, Violation{Class: "deadlock", Task: id, Op: "?",
				Detail: "a goroutine started by the code under test (go statement) is blocked forever after every caller has finished", Sig: "deadlock:blocked-forever"})
		}
	}
	rep.Ranges, rep.RangesMulti = simrt.RangeCounts()
	out.Sim = res
	out.Recorded = sim.Recorded()
	out.Stats = sim.Stats()
	out.Trace = sim.Trace
	rep.Stats = sim.Stats()
	for k := range rep.Stats.SitePairs {
		rep.SitePairs = append(rep.SitePairs, k)
	}
	sort.Slice(rep.SitePairs, func(i, j int) bool { return rep.SitePairs[i] < rep.SitePairs[j] })
	rep.SiteHits = map[int]int{}
	for k, v := range rep.Stats.SiteHits {
		rep.SiteHits[int(k)] = v
	}

	// ---- O1 / O2
	rh := newHasher()
	for t := range ref {
		if leaked[t] {
			// the task is blocked forever on a channel / Cond / WaitGroup of the code under test;
			// its goroutine never finished, so its results are not read
			op := "?"
			if len(spec.Tasks[t].Steps) > 0 {
				op = spec.Tasks[t].Steps[0].Op
			}
			ops := ""
			for _, st := range spec.Tasks[t].Steps {
				ops += " " + st.Op
			}
			rep.Violations = append(rep.Violations, Violation{Class: "deadlock", Task: t, Op: op,
				Detail: "task " + fmt.Sprint(t) + " (calls:" + ops + ") is blocked forever outside the simulator's primitives (channel/Cond/WaitGroup of the code under test) after every other task has finished; alone every call returned",
				Sig:    "deadlock:blocked-forever"})
			continue
		}
		for s := range ref[t] {
			a, b := ref[t][s], res[t][s]
			if b.Fault {
				rep.SinkFaults++
			}
			if b.MutatedLater != "" {
				st := &spec.Tasks[t].Steps[s]
				rep.Violations = append(rep.Violations, Violation{Class: "result-mutated", Task: t, Step: s, Op: st.Op, Detail: b.MutatedLater, Sig: "result-mutated:" + opSig(st)})
			}
			rh.u64(b.Hash)
			rh.str(b.Kind)
			if a.Equal(b) {
				continue
			}
			st := &spec.Tasks[t].Steps[s]
			v := Violation{Task: t, Step: s, Op: st.Op}
			switch b.Kind {
			case "skipped":
				continue
			case "panic":
				v.Class = "new-panic"
				v.Detail = fmt.Sprintf("alone: %s %s; concurrently: panic %s", a.Kind, a.Brief, b.Brief)
				v.Sig = "new-panic:" + digits.ReplaceAllString(b.Brief, "N")
			case "abort":
				v.Class = "deadlock-or-budget"
				v.Detail = fmt.Sprintf("alone: %s %s; concurrently: %s", a.Kind, a.Brief, b.Brief)
				v.Sig = "abort:" + st.Op
			default:
				v.Class = "solo-equality"
				v.Detail = fmt.Sprintf("alone: %s %s; concurrently: %s %s", a.Kind, a.Brief, b.Kind, b.Brief)
				v.Sig = "solo-equality:" + opSig(st)
			}
			rep.Violations = append(rep.Violations, v)
		}
	}
	rep.ResultHash = rh.h
	rep.Races = simrt.RaceErrors() - races0
	rep.CPUms = cpuMS() - cpu0
	st := rep.Stats
	rep.Nontrivial = len(spec.Tasks) >= 2 && st.SwitchesInOp >= 1 && (st.CrossReuse >= 1 || st.Contended >= 1 || st.OnceWait >= 1 || st.SharedSites >= 1)
	return rep, out, nil
}

var digits = regexp.MustCompile(`[0-9]+`)

// opSig is the operation class used in violation signatures.
func opSig(st *Step) string {
	switch st.Op {
	case "render", "renderdrawn":
		return "render/" + st.Format
	case "and", "or", "xor", "not", "div":
		return "boolean"
	}
	return st.Op
}
