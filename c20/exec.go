package c20

import (
	"bytes"
	"fmt"
	"image"
	"image/color"
	"image/png"
	"math"
	"os"
	"path/filepath"
	"runtime/debug"
	"strings"

	"github.com/tdewolff/canvas"
	"github.com/tdewolff/canvas/renderers/pdf"
	"github.com/tdewolff/canvas/renderers/ps"
	"github.com/tdewolff/canvas/renderers/rasterizer"
	"github.com/tdewolff/canvas/renderers/svg"
	"github.com/tdewolff/canvas/text"
	"github.com/tdewolff/font"

	"verif/simrt"
)

// ---- hashing --------------------------------------------------------------------------------

type hasher struct{ h uint64 }

func b2u(b bool) uint64 {
	if b {
		return 1
	}
	return 0
}

func newHasher() *hasher { return &hasher{14695981039346656037} }

func (h *hasher) u64(v uint64) {
	for i := 0; i < 8; i++ {
		h.h ^= (v >> (8 * i)) & 0xff
		h.h *= 1099511628211
	}
}
func (h *hasher) f64(v float64) { h.u64(math.Float64bits(v)) }
func (h *hasher) str(s string) {
	h.u64(uint64(len(s)))
	for i := 0; i < len(s); i++ {
		h.h ^= uint64(s[i])
		h.h *= 1099511628211
	}
}
func (h *hasher) bytes(b []byte) {
	h.u64(uint64(len(b)))
	for _, c := range b {
		h.h ^= uint64(c)
		h.h *= 1099511628211
	}
}

// ---- environment ----------------------------------------------------------------------------

// Env is the per-phase environment of a run: font bytes and the loaded fonts shared by the tasks.
type Env struct {
	Resources string // directory with the bundled fonts
	FontDir   string // fixture "system" font directory (HOME/.fonts)
	Names     []string
	Bytes     [][]byte
	Files     []string
	Shared    []*canvas.Font // loaded once per phase by the harness, shared read-only by all tasks
	// Drawn[t] is the canvas task t drew with its last "draw" call and has not rendered yet
	// (each task touches only its own slot).
	Drawn []*drawn
	// Last[t] is the path returned by task t's previous call (operand of a chained call).
	Last []*canvas.Path
	// Family is a font family shared by all tasks (regular = font 0, bold = font 1 if the run has two fonts).
	Family *canvas.FontFamily
	// Paints are paint objects shared by all tasks' drawings (created once per phase).
	Paints []interface{}
	// Faces are font faces (of the shared fonts) shared by all tasks' texts; created on first use in
	// the reference phase, up front in the simulation phase.
	Faces  [3]*canvas.FontFace
	NoName []bool
}

var fontBytesCache = map[string][]byte{}

func fontBytes(resources, name string) ([]byte, error) {
	if b, ok := fontBytesCache[name]; ok {
		return b, nil
	}
	var b []byte
	if base, ok := strings.CutPrefix(name, "noname:"); ok {
		raw, err := os.ReadFile(filepath.Join(resources, base))
		if err != nil {
			return nil, err
		}
		sfnt, err := font.ParseFont(raw, 0)
		if err != nil {
			return nil, err
		}
		var ids []uint16
		ids = append(ids, 0)
		for _, r := range " abcdefghijklmnopqrstuvwxyzABCDEFGHIJKLMNOPQRSTUVWXYZ,.ö" {
			if id := sfnt.GlyphIndex(r); id != 0 {
				ids = append(ids, id)
			}
		}
		sub, err := sfnt.Subset(ids, font.SubsetOptions{Tables: font.KeepMinTables})
		if err != nil {
			return nil, err
		}
		b = sub.Write()
	} else {
		var err error
		b, err = os.ReadFile(filepath.Join(resources, name))
		if err != nil {
			return nil, err
		}
	}
	fontBytesCache[name] = b
	return b, nil
}

type drawn struct {
	c *canvas.Canvas
	d *Drawing
}

// NewEnv prepares the run's font table. With lazy=false all fonts are loaded at once (simulation
// phase: tasks must not load the shared fonts themselves). With lazy=true (reference phase, one
// environment per call) font i is loaded when first used, together with all fonts before it, so
// that the fallback names f<N> of name-less fonts are the same as with eager loading.
// Must be called by the harness goroutine, outside simulations.
func NewEnv(resources, fontDir string, names []string, lazy bool) (*Env, error) {
	e := &Env{Resources: resources, FontDir: fontDir, Names: names}
	for _, n := range names {
		b, err := fontBytes(resources, n)
		if err != nil {
			return nil, fmt.Errorf("font %s: %w", n, err)
		}
		e.Bytes = append(e.Bytes, b)
		base := strings.TrimPrefix(n, "noname:")
		e.Files = append(e.Files, filepath.Join(resources, base))
		e.NoName = append(e.NoName, strings.HasPrefix(n, "noname:"))
	}
	e.Shared = make([]*canvas.Font, len(names))
	if len(names) > 0 {
		e.Family = canvas.NewFontFamily("shared")
		if err := e.Family.LoadFont(e.Bytes[0], 0, canvas.FontRegular); err != nil {
			return nil, err
		}
		if len(names) > 1 {
			if err := e.Family.LoadFont(e.Bytes[1], 0, canvas.FontBold); err != nil {
				return nil, err
			}
		}
	}
	lg := canvas.NewLinearGradient(canvas.Point{X: 0, Y: 0}, canvas.Point{X: 30, Y: 10})
	lg.Add(0, color.RGBA{255, 0, 0, 255})
	lg.Add(1, color.RGBA{0, 0, 255, 128})
	// three stops: the PDF renderer panics on these (DESIGN.md §9), the others draw them
	lg3 := canvas.NewLinearGradient(canvas.Point{X: 5, Y: 0}, canvas.Point{X: 25, Y: 20})
	lg3.Add(0, color.RGBA{255, 0, 0, 255})
	lg3.Add(0.4, color.RGBA{0, 170, 85, 255})
	lg3.Add(1, color.RGBA{0, 0, 255, 128})
	rg := canvas.NewRadialGradient(canvas.Point{X: 10, Y: 10}, 1, canvas.Point{X: 12, Y: 9}, 15)
	rg.Add(0, color.RGBA{255, 255, 0, 255})
	rg.Add(1, color.RGBA{85, 0, 170, 255})
	e.Paints = []interface{}{canvas.Gradient(lg), canvas.Gradient(rg), canvas.Pattern(canvas.NewLineHatch(color.RGBA{0, 85, 170, 255}, 45, 1.2, 0.25)), canvas.Pattern(canvas.NewCrossHatch(color.RGBA{170, 0, 0, 255}, 15, 75, 1.5, 2, 0.2)), canvas.Gradient(lg3)}
	if !lazy {
		for i := range names {
			if err := e.load(i); err != nil {
				return nil, err
			}
		}
		if len(names) > 0 {
			for k := range e.Faces {
				e.Face(k + 1)
			}
		}
	}
	return e, nil
}

func (e *Env) load(i int) error {
	for j := 0; j <= i; j++ {
		if e.Shared[j] != nil {
			continue
		}
		f, err := canvas.LoadFont(e.Bytes[j], 0, canvas.FontRegular)
		if err != nil {
			return fmt.Errorf("font %s: %w", e.Names[j], err)
		}
		simrt.RegisterPtrID(f, uint64(j+1))
		e.Shared[j] = f
	}
	return nil
}

// Font returns shared font i (modulo the table size).
func (e *Env) Font(i int) *canvas.Font {
	i %= len(e.Shared)
	if e.Shared[i] == nil {
		if err := e.load(i); err != nil {
			panic(err)
		}
	}
	return e.Shared[i]
}

// Face returns shared face k (1-based).
func (e *Env) Face(k int) *canvas.FontFace {
	k = (k - 1) % len(e.Faces)
	if e.Faces[k] == nil {
		switch k {
		case 0:
			e.Faces[k] = e.Font(0).Face(12, color.Black)
		case 1:
			e.Faces[k] = e.Font(1).Face(10, color.RGBA{0, 0, 120, 255}, canvas.FontUnderline)
		default:
			e.Faces[k] = e.Font(0).Face(24, color.RGBA{120, 0, 0, 255})
			e.Faces[k].FauxBold = 0.02
		}
	}
	return e.Faces[k]
}

// ---- building inputs ------------------------------------------------------------------------

func buildPath(s *Shape) *canvas.Path {
	p := &canvas.Path{}
	if s == nil {
		return p
	}
	for _, g := range s.Segs {
		switch g.C {
		case "M":
			p.MoveTo(g.A[0], g.A[1])
		case "L":
			p.LineTo(g.A[0], g.A[1])
		case "Q":
			p.QuadTo(g.A[0], g.A[1], g.A[2], g.A[3])
		case "C":
			p.CubeTo(g.A[0], g.A[1], g.A[2], g.A[3], g.A[4], g.A[5])
		case "A":
			p.ArcTo(g.A[0], g.A[1], g.A[2], g.A[3] != 0, g.A[4] != 0, g.A[5], g.A[6])
		case "Z":
			p.Close()
		}
	}
	return p
}

var cappers = []canvas.Capper{canvas.ButtCap, canvas.RoundCap, canvas.SquareCap}
var joiners = []canvas.Joiner{canvas.MiterJoin, canvas.RoundJoin, canvas.BevelJoin, canvas.ArcsJoin, canvas.MiterClipJoin, canvas.ArcsClipJoin}
var fillRules = []canvas.FillRule{canvas.NonZero, canvas.EvenOdd, canvas.Positive, canvas.Negative}
var styles = []canvas.FontStyle{canvas.FontRegular, canvas.FontBold, canvas.FontItalic, canvas.FontBold | canvas.FontItalic}
var variants = []canvas.FontVariant{canvas.FontNormal, canvas.FontSubscript, canvas.FontSmallcaps}
var halign = []canvas.TextAlign{canvas.Left, canvas.Right, canvas.Center, canvas.Justify}
var valign = []canvas.TextAlign{canvas.Top, canvas.Bottom, canvas.Center, canvas.Justify}
var decos = [][]canvas.FontDecorator{
	nil,
	{canvas.FontUnderline},
	{canvas.FontOverline, canvas.FontStrikethrough},
	{canvas.FontDoubleUnderline},
	{canvas.FontDottedUnderline},
	{canvas.FontDashedUnderline},
	{canvas.FontWavyUnderline},
	{canvas.FontSineUnderline, canvas.FontSawtoothUnderline},
}

func pathResult(p *canvas.Path) Result {
	if p == nil {
		return Result{Kind: "path", Hash: 1, Brief: "nil"}
	}
	h := newHasher()
	d := p.Data()
	h.u64(uint64(len(d)))
	for _, v := range d {
		h.f64(v)
	}
	s := p.String()
	if len(s) > 160 {
		s = s[:160] + "…"
	}
	return Result{Kind: "path", Hash: h.h, Brief: fmt.Sprintf("len=%d %s", len(d), s), obj: p}
}

// Rehash recomputes the hash of a path result's object (0 if the result holds no object).
func (r Result) Rehash() uint64 {
	if r.obj == nil {
		return 0
	}
	return pathResult(r.obj).Hash
}

// SameObject reports whether the result's object is p.
func (r Result) SameObject(p *canvas.Path) bool { return r.obj != nil && r.obj == p }

func hashFace(h *hasher, f *canvas.FontFace, env *Env) {
	if f == nil {
		h.u64(0)
		return
	}
	// identify the font by its position in the run's table where possible (names of name-less
	// fonts are history-dependent by design)
	idx := -1
	for i, sf := range env.Shared {
		if sf != nil && sf == f.Font {
			idx = i
		}
	}
	h.u64(uint64(idx + 1))
	if idx < 0 && f.Font != nil {
		h.u64(uint64(f.Font.NumGlyphs()))
	}
	h.f64(f.Size)
	h.u64(uint64(f.Style))
	h.u64(uint64(f.Variant))
	h.f64(f.FauxBold)
	h.f64(f.FauxItalic)
	h.u64(uint64(int64(f.XOffset)))
	h.u64(uint64(int64(f.YOffset)))
	h.u64(uint64(len(f.Deco)))
}

func textResult(t *canvas.Text, env *Env) Result {
	h := newHasher()
	n := 0
	t.WalkSpans(func(x, y float64, span canvas.TextSpan) {
		n++
		h.f64(x)
		h.f64(y)
		h.f64(span.Width)
		h.str(span.Text)
		hashFace(h, span.Face, env)
		h.u64(uint64(span.Direction))
		h.u64(uint64(span.Rotation))
		h.u64(uint64(span.Level))
		h.u64(uint64(len(span.Glyphs)))
		for _, g := range span.Glyphs {
			h.u64(uint64(g.ID))
			h.u64(uint64(g.Cluster))
			h.u64(uint64(uint32(g.XAdvance)))
			h.u64(uint64(uint32(g.YAdvance)))
			h.u64(uint64(uint32(g.XOffset)))
			h.u64(uint64(uint32(g.YOffset)))
			h.u64(uint64(g.Text))
			h.f64(g.Size)
			if g.Vertical {
				h.u64(1)
			}
		}
	})
	b := t.Bounds()
	h.f64(b.X0)
	h.f64(b.Y0)
	h.f64(b.X1)
	h.f64(b.Y1)
	ob := t.OutlineBounds()
	h.f64(ob.X0)
	h.f64(ob.Y0)
	h.f64(ob.X1)
	h.f64(ob.Y1)
	nd := 0
	t.WalkDecorations(func(fill canvas.Paint, deco *canvas.Path) {
		nd++
		r, g, bb, a := fill.Color.RGBA()
		h.u64(uint64(r)<<48 | uint64(g)<<32 | uint64(bb)<<16 | uint64(a))
		h.u64(pathResult(deco).Hash)
	})
	hashFace(h, t.MostCommonFontFace(), env)
	h.u64(uint64(len(t.Fonts())))
	return Result{Kind: "text", Hash: h.h, Brief: fmt.Sprintf("lines=%d spans=%d decos=%d bounds=%v", t.Lines(), n, nd, b)}
}

func fontResult(f *canvas.Font, noname bool) Result {
	h := newHasher()
	name := f.Name()
	if noname {
		// f<N> with N from a process-wide counter: unique names are the purpose, the value is
		// history-dependent by design; compare modulo the number.
		if len(name) >= 2 && name[0] == 'f' && strings.Trim(name[1:], "0123456789") == "" {
			name = "f<N>"
		}
	}
	h.str(name)
	h.u64(uint64(f.Style()))
	h.u64(uint64(f.NumGlyphs()))
	h.u64(uint64(f.Head.UnitsPerEm))
	face := f.Face(12, color.Black)
	h.f64(face.TextWidth("Hamburgefonts"))
	m := face.Metrics()
	h.f64(m.Ascent)
	h.f64(m.Descent)
	h.f64(m.LineHeight)
	return Result{Kind: "font", Hash: h.h, Brief: fmt.Sprintf("name=%s glyphs=%d", name, f.NumGlyphs())}
}

func errResult(err error) Result {
	h := newHasher()
	h.str(err.Error())
	return Result{Kind: "err", Hash: h.h, Brief: err.Error()}
}

// ---- executing steps ------------------------------------------------------------------------

// ExecStep runs one API call and canonicalises its outcome. Panics become results.
func ExecStep(env *Env, task int, st *Step) (res Result) {
	defer func() {
		// runs last: whatever the outcome, the next chained call sees the path this call returned
		// (nothing if it returned no path or panicked)
		if task < len(env.Last) {
			env.Last[task] = res.obj
		}
	}()
	defer func() {
		if r := recover(); r != nil {
			if ab, ok := r.(simrt.ErrAbort); ok {
				h := newHasher()
				h.str(ab.Reason)
				res = Result{Kind: "abort", Hash: h.h, Brief: ab.Reason}
				return
			}
			msg := fmt.Sprint(r)
			h := newHasher()
			h.str(msg)
			stack := string(debug.Stack())
			res = Result{Kind: "panic", Hash: h.h, Brief: msg + " @ " + topFrame(stack)}
		}
	}()
	return execStep(env, task, st)
}

func topFrame(stack string) string {
	lines := strings.Split(stack, "\n")
	for i, l := range lines {
		if strings.Contains(l, "tdewolff/canvas") && !strings.Contains(l, "verif/") && i+1 < len(lines) {
			loc := strings.TrimSpace(lines[i+1])
			if j := strings.Index(loc, " +0x"); j >= 0 {
				loc = loc[:j]
			}
			return filepath.Base(loc)
		}
	}
	return "?"
}

// operandA is the subject path of a geometry call: built from the description, or - chained - the
// very object the task's previous call returned.
func operandA(env *Env, task int, st *Step) *canvas.Path {
	if st.ChainA && task < len(env.Last) && env.Last[task] != nil {
		return env.Last[task]
	}
	return buildPath(st.A)
}

func execStep(env *Env, task int, st *Step) Result {
	if st.Repeat && st.Op != "render" && st.Op != "richtext" {
		// geometry: the same call on the very same input objects, twice
		a, b := operandA(env, task, st), buildPath(st.B)
		first := geometryOp(st, a, b)
		if again := geometryOp(st, a, b); !again.Equal(first) {
			first.RepeatDiff = fmt.Sprintf("first call: %s; second call on the same path objects: %s", first.Brief, again.Brief)
		}
		return first
	}
	switch st.Op {
	case "and", "or", "xor", "not", "div":
		a, b := operandA(env, task, st), buildPath(st.B)
		var r *canvas.Path
		if st.AsPaths {
			as, bs := canvas.Paths(a.Split()), canvas.Paths(b.Split())
			switch st.EmptySub {
			case 1:
				as = append(as, &canvas.Path{})
			case 2:
				bs = append(bs, &canvas.Path{})
			case 3:
				as = append(canvas.Paths{&canvas.Path{}}, as...)
			}
			switch st.Op {
			case "and":
				r = as.And(bs)
			case "or":
				r = as.Or(bs)
			case "xor":
				r = as.Xor(bs)
			case "not":
				r = as.Not(bs)
			default:
				r = as.DivideBy(bs)
			}
		} else {
			switch st.Op {
			case "and":
				r = a.And(b)
			case "or":
				r = a.Or(b)
			case "xor":
				r = a.Xor(b)
			case "not":
				r = a.Not(b)
			default:
				r = a.DivideBy(b)
			}
		}
		return pathResult(r)
	case "settle":
		a := operandA(env, task, st)
		if st.AsPaths {
			as := canvas.Paths(a.Split())
			switch st.EmptySub {
			case 1, 2:
				as = append(as, &canvas.Path{})
			case 3:
				as = append(canvas.Paths{&canvas.Path{}}, as...)
			}
			return pathResult(as.Settle(fillRules[st.FillRule%4]))
		}
		return pathResult(a.Settle(fillRules[st.FillRule%4]))
	case "stroke":
		return pathResult(operandA(env, task, st).Stroke(st.W, cappers[st.Cap%3], joiners[st.Join%6], st.Tol))
	case "offset":
		return pathResult(operandA(env, task, st).Offset(st.W, st.Tol))
	case "flatten":
		return pathResult(buildPath(st.A).Flatten(st.Tol))
	case "dash":
		return pathResult(operandA(env, task, st).Dash(st.Offset, st.Dashes...))
	case "clip":
		return pathResult(buildPath(st.A).Clip(0, 0, st.W, st.W))
	case "simplify":
		return pathResult(buildPath(st.A).SimplifyVisvalingamWhyatt(st.Tol))
	case "gridsnap":
		return pathResult(buildPath(st.A).Gridsnap(st.Tol))
	case "tile":
		return pathResult(buildPath(st.A).Tile(buildPath(st.B), canvas.SquareCell(st.W)))
	case "measure":
		// the read-only queries, folded into one value
		a := operandA(env, task, st)
		h := newHasher()
		b, fb := a.Bounds(), a.FastBounds()
		for _, v := range []float64{b.X0, b.Y0, b.X1, b.Y1, fb.X0, fb.Y0, fb.X1, fb.Y1, a.Length()} {
			h.f64(v)
		}
		for _, f := range a.Filling(fillRules[st.FillRule%4]) {
			h.u64(b2u(f))
		}
		h.u64(b2u(a.CCW()))
		n := 0
		for i := 0; i < 5; i++ {
			x, y := b.X0+b.W()*(0.1+0.2*float64(i)), b.Y0+b.H()*(0.15+0.17*float64(i))
			w, onb := a.Windings(x, y)
			h.u64(uint64(int64(w)))
			h.u64(b2u(onb))
			h.u64(b2u(a.Contains(x, y, fillRules[st.FillRule%4])))
			zs := a.RayIntersections(x, y)
			n += len(zs)
			for _, z := range zs {
				h.f64(z.X)
				h.f64(z.T[0])
				h.u64(b2u(z.Tangent))
			}
		}
		for _, d := range a.CoordDirections() {
			h.f64(d.X)
			h.f64(d.Y)
		}
		return Result{Kind: "measure", Hash: h.h, Brief: fmt.Sprintf("bounds=%v length=%.6g rayhits=%d", b, a.Length(), n)}
	case "split":
		// the decomposing operations; every piece goes into one path for hashing
		a := operandA(env, task, st)
		r := &canvas.Path{}
		for _, q := range a.Split() {
			r = r.Append(q.Reverse())
		}
		for _, q := range a.SplitAt(st.W, 2.5*st.W, 7*st.W) {
			r = r.Append(q)
		}
		r = r.Append(a.XMonotone())
		m := canvas.Rectangle(st.Tol, st.Tol)
		for _, q := range a.Markers(m, m, m, st.AsPaths) {
			r = r.Append(q)
		}
		return pathResult(r)
	case "svgpath":
		// the textual forms and back again
		svg := st.SVG // equal strings in several calls of a run: independent inputs all the same
		if svg == "" {
			svg = buildPath(st.A).Transform(canvas.Identity.Rotate(float64(st.Opt)).Scale(1, st.W)).ToSVG()
		}
		q, err := canvas.ParseSVGPath(svg)
		if err != nil {
			return Result{Kind: "svgpath", Hash: 3, Brief: "parse error: " + err.Error()}
		}
		h := newHasher()
		h.str(svg)
		h.str(q.ToPS())
		h.str(q.ToPDF())
		h.str(q.String())
		r := pathResult(q)
		h.u64(r.Hash)
		// the path is the caller's: change it in place, then parse the same string once more
		q = q.Translate(3, st.W)
		q.Close()
		h.str(q.String())
		if q2, err := canvas.ParseSVGPath(svg); err == nil {
			h.str(q2.String())
		}
		return Result{Kind: "svgpath", Hash: h.h, Brief: r.Brief}

	case "textline":
		face := stepFace(env, st)
		return textResult(canvas.NewTextLine(face, st.Text, halign[st.HAlign%4]), env)
	case "textbox":
		face := stepFace(env, st)
		return textResult(canvas.NewTextBox(face, st.Text, st.Width, st.Height, halign[st.HAlign%4], valign[st.VAlign%4], 0, 0), env)
	case "richtext":
		face := stepFace(env, st)
		rt := canvas.NewRichText(face)
		switch st.WMode {
		case 1:
			rt.SetWritingMode(canvas.VerticalRL)
		case 2:
			rt.SetWritingMode(canvas.VerticalLR)
		}
		if st.WMode != 0 {
			rt.SetTextOrientation([]canvas.TextOrientation{canvas.Natural, canvas.Upright, canvas.Natural}[st.Orient%3])
		}
		words := strings.Fields(st.Text)
		other := env.Font(st.Font+1).Face(st.Size*0.8, color.RGBA{200, 0, 0, 255}, decos[(st.Deco+1)%len(decos)]...)
		for i, w := range words {
			if i%2 == 0 {
				rt.WriteFace(face, w+" ")
			} else {
				rt.WriteFace(other, w+" ")
			}
		}
		res := textResult(rt.ToText(st.Width, st.Height, halign[st.HAlign%4], valign[st.VAlign%4], 0, 0), env)
		if st.Repeat {
			// the same RichText object laid out a second time
			if again := textResult(rt.ToText(st.Width, st.Height, halign[st.HAlign%4], valign[st.VAlign%4], 0, 0), env); !again.Equal(res) {
				res.RepeatDiff = fmt.Sprintf("first ToText: %s; second ToText of the same RichText: %s", res.Brief, again.Brief)
			}
		}
		return res

	case "loadfont":
		i := st.Font % len(env.Bytes)
		f, err := canvas.LoadFont(env.Bytes[i], 0, styles[st.Style%4])
		if err != nil {
			return errResult(err)
		}
		return fontResult(f, env.NoName[i])
	case "loadfontfile":
		i := st.Font % len(env.Bytes)
		f, err := canvas.LoadFontFile(env.Files[i], styles[st.Style%4])
		if err != nil {
			return errResult(err)
		}
		return fontResult(f, false)
	case "familyface":
		// a font family shared by all tasks, asked for a (possibly unloaded) style
		face := env.Family.Face(st.Size, color.Black, styles[st.Style%4], variants[st.Variant%3])
		h := newHasher()
		hashFace(h, face, env)
		h.f64(face.TextWidth("family matters"))
		res := Result{Kind: "font", Hash: h.h, Brief: fmt.Sprintf("shared family style %v: fauxbold=%v fauxitalic=%v", styles[st.Style%4], face.FauxBold, face.FauxItalic)}
		if st.Repeat {
			face2 := env.Family.Face(st.Size, color.Black, styles[st.Style%4], variants[st.Variant%3])
			h2 := newHasher()
			hashFace(h2, face2, env)
			h2.f64(face2.TextWidth("family matters"))
			if h2.h != h.h {
				res.RepeatDiff = fmt.Sprintf("first Face: fauxbold=%v fauxitalic=%v; second identical Face call: fauxbold=%v fauxitalic=%v", face.FauxBold, face.FauxItalic, face2.FauxBold, face2.FauxItalic)
			}
		}
		return res
	case "fontinfo":
		// what a caller can read off the shared loaded font: must not depend on what was rendered
		// with it before
		f := env.Font(st.Font)
		h := newHasher()
		h.u64(uint64(f.NumGlyphs()))
		h.u64(uint64(f.Head.UnitsPerEm))
		h.u64(uint64(uint16(f.Head.IndexToLocFormat)))
		h.u64(uint64(f.Hhea.NumberOfHMetrics))
		if f.OS2 != nil {
			h.u64(uint64(f.OS2.UlUnicodeRange1))
			h.u64(uint64(f.OS2.UlUnicodeRange2))
			h.u64(uint64(f.OS2.UlUnicodeRange3))
			h.u64(uint64(f.OS2.UlUnicodeRange4))
		}
		h.u64(uint64(f.GlyphIndex('A')))
		h.u64(uint64(f.GlyphAdvance(f.GlyphIndex('W'))))
		face := f.Face(10, color.Black)
		m := face.Metrics()
		h.f64(m.Ascent)
		h.f64(m.XHeight)
		h.f64(face.TextWidth("info"))
		return Result{Kind: "font", Hash: h.h, Brief: fmt.Sprintf("shared font %d: glyphs=%d locaFormat=%d hMetrics=%d", st.Font, f.NumGlyphs(), f.Head.IndexToLocFormat, f.Hhea.NumberOfHMetrics)}
	case "loadmissing":
		// error path: a font file that does not exist (the same name for all tasks)
		fam := canvas.NewFontFamily("fam")
		err := fam.LoadFontFile(filepath.Join(env.FontDir, fmt.Sprintf("missing-%d.ttf", st.Font%2)), styles[st.Style%4])
		if err == nil {
			return Result{Kind: "font", Hash: 1, Brief: "missing font file loaded?"}
		}
		h := newHasher()
		h.str(strings.ReplaceAll(err.Error(), env.FontDir, "<fontdir>"))
		return Result{Kind: "err", Hash: h.h, Brief: strings.ReplaceAll(err.Error(), env.FontDir, "<fontdir>")}
	case "fontfamily":
		i := st.Font % len(env.Bytes)
		fam := canvas.NewFontFamily("fam")
		if err := fam.LoadFont(env.Bytes[i], 0, canvas.FontRegular); err != nil {
			return errResult(err)
		}
		j := (st.Font + 1) % len(env.Bytes)
		if err := fam.LoadFont(env.Bytes[j], 0, canvas.FontBold); err != nil {
			return errResult(err)
		}
		face := fam.Face(11, color.Black, styles[st.Style%4], variants[st.Variant%3])
		h := newHasher()
		h.f64(face.TextWidth("family matters"))
		h.f64(face.FauxBold)
		h.f64(face.FauxItalic)
		h.u64(uint64(face.Font.NumGlyphs()))
		return Result{Kind: "font", Hash: h.h, Brief: fmt.Sprintf("family face glyphs=%d fauxbold=%v", face.Font.NumGlyphs(), face.FauxBold)}
	case "systemfont":
		name := []string{"DejaVu Serif", "EB Garamond", "Dynalight", "serif", "no such font"}[st.Font%5]
		fn, ok := canvas.FindSystemFont(name, styles[st.Style%4])
		h := newHasher()
		h.str(filepath.Base(fn))
		if ok {
			h.u64(1)
			f, err := canvas.LoadSystemFont(name, styles[st.Style%4])
			if err != nil {
				return errResult(err)
			}
			h.u64(fontResult(f, false).Hash)
		}
		return Result{Kind: "font", Hash: h.h, Brief: fmt.Sprintf("system %q -> %s %v", name, filepath.Base(fn), ok)}

	case "render":
		return renderStep(env, st)
	case "draw":
		// draw now, render in a later call of the same task ("renderdrawn"): other tasks run in between
		for len(env.Drawn) <= task {
			env.Drawn = append(env.Drawn, nil)
		}
		env.Drawn[task] = &drawn{c: drawCanvas(env, st.Draw), d: st.Draw}
		return Result{Kind: "bytes", Hash: 7, Brief: fmt.Sprintf("drew %d items", len(st.Draw.Items))}
	case "renderdrawn":
		if task >= len(env.Drawn) || env.Drawn[task] == nil {
			return Result{Kind: "bytes", Hash: 8, Brief: "nothing drawn"}
		}
		dr := env.Drawn[task]
		return renderOnce(dr.c, dr.d, st)
	}
	panic("unknown op " + st.Op)
}

// geometryOp executes a geometry call on given path objects (used by the repeat oracle).
func geometryOp(st *Step, a, b *canvas.Path) Result {
	switch st.Op {
	case "and":
		return pathResult(a.And(b))
	case "or":
		return pathResult(a.Or(b))
	case "xor":
		return pathResult(a.Xor(b))
	case "not":
		return pathResult(a.Not(b))
	case "div":
		return pathResult(a.DivideBy(b))
	case "settle":
		return pathResult(a.Settle(fillRules[st.FillRule%4]))
	case "stroke":
		return pathResult(a.Stroke(st.W, cappers[st.Cap%3], joiners[st.Join%6], st.Tol))
	case "offset":
		return pathResult(a.Offset(st.W, st.Tol))
	case "flatten":
		return pathResult(a.Flatten(st.Tol))
	case "dash":
		return pathResult(a.Dash(st.Offset, st.Dashes...))
	}
	panic("no repeat for " + st.Op)
}

func stepFace(env *Env, st *Step) *canvas.FontFace {
	if st.SharedFace > 0 {
		return env.Face(st.SharedFace)
	}
	f := env.Font(st.Font)
	face := f.Face(st.Size, color.RGBA{0, 0, uint8(40 * st.Style), 255}, decos[st.Deco%len(decos)]...)
	// faux styles and variants as FontFamily.Face would set them for a family with one regular font
	switch styles[st.Style%4] {
	case canvas.FontBold:
		face.Style = canvas.FontBold
		face.FauxBold = 0.02
	case canvas.FontItalic:
		face.Style = canvas.FontItalic
		face.FauxItalic = 0.3
	case canvas.FontBold | canvas.FontItalic:
		face.Style = canvas.FontBold | canvas.FontItalic
		face.FauxBold = 0.02
		face.FauxItalic = 0.3
	}
	switch variants[st.Variant%3] {
	case canvas.FontSubscript:
		face.Variant = canvas.FontSubscript
		face.Size *= 0.583
		face.MmPerEm *= 0.583
		face.YOffset = int32(-0.33 * float64(f.Head.UnitsPerEm))
	case canvas.FontSmallcaps:
		face.Variant = canvas.FontSmallcaps
	}
	return face
}

// faultySink is the renderers' io.Writer: an in-memory buffer that starts returning an error at
// the failAt-th Write (the injected "disk full").
type faultySink struct {
	buf    bytes.Buffer
	n      int
	failAt int
	fired  bool
}

var errSink = fmt.Errorf("injected write error: no space left on device")

func (s *faultySink) Write(p []byte) (int, error) {
	s.n++
	if s.failAt > 0 && s.n >= s.failAt {
		s.fired = true
		return 0, errSink
	}
	return s.buf.Write(p)
}

func renderStep(env *Env, st *Step) Result {
	d := st.Draw
	c := drawCanvas(env, d)
	res := renderOnce(c, d, st)
	if st.Repeat && st.FailAt == 0 {
		// the same canvas object, the same fonts, the same options, again
		if again := renderOnce(c, d, st); !again.Equal(res) {
			res.RepeatDiff = fmt.Sprintf("first render: %s; second render of the same canvas: %s", res.Brief, again.Brief)
		}
	}
	return res
}

func drawCanvas(env *Env, d *Drawing) *canvas.Canvas {
	c := canvas.New(d.W, d.H)
	ctx := canvas.NewContext(c)
	for _, it := range d.Items {
		ctx.Push()
		ctx.SetZIndex(it.Z)
		if it.Rot != 0 {
			ctx.RotateAbout(it.Rot, d.W/2, d.H/2)
		}
		switch it.Kind {
		case "path":
			fill := color.RGBA{it.Fill[0], it.Fill[1], it.Fill[2], it.Fill[3]}
			other := color.RGBA{it.Stroke[2], it.Fill[0], it.Stroke[1], 255}
			switch it.Paint {
			case 1:
				g := canvas.NewLinearGradient(canvas.Point{X: it.X, Y: it.Y}, canvas.Point{X: it.X + 20, Y: it.Y + 10})
				g.Add(0, fill)
				g.Add(1, other)
				ctx.SetFillGradient(g)
			case 2:
				g := canvas.NewRadialGradient(canvas.Point{X: it.X + 5, Y: it.Y + 5}, 0, canvas.Point{X: it.X + 5, Y: it.Y + 5}, 12)
				g.Add(0, fill)
				if int(it.X+it.Y)%2 == 0 {
					g.Add(0.5, other) // a third stop (PDF panics on it, DESIGN.md §9)
					g.Add(1, fill)
				} else {
					g.Add(1, other)
				}
				ctx.SetFillGradient(g)
			case 3:
				ctx.SetFillPattern(canvas.NewLineHatch(fill, 30, 1.5, 0.3))
			case 4:
				ctx.SetFillPattern(canvas.NewCrossHatch(other, 0, 60, 2, 2.5, 0.25))
			case 5, 6, 7, 8, 9:
				// a paint object shared by all canvases of the run (like a shared font)
				switch pt := env.Paints[(it.Paint-5)%len(env.Paints)].(type) {
				case canvas.Gradient:
					ctx.SetFillGradient(pt)
				case canvas.Pattern:
					ctx.SetFillPattern(pt)
				}
			default:
				ctx.SetFillColor(fill)
			}
			ctx.SetStrokeColor(color.RGBA{it.Stroke[0], it.Stroke[1], it.Stroke[2], it.Stroke[3]})
			ctx.SetStrokeWidth(it.SW)
			if len(it.Dashes) > 0 {
				ctx.SetDashes(0, it.Dashes...)
			}
			ctx.DrawPath(it.X, it.Y, buildPath(it.Shape))
		case "image":
			ctx.DrawImage(it.X, it.Y, genImage(&it), canvas.DPMM(it.Res))
		case "text":
			f := env.Font(it.Font)
			face := f.Face(it.Size, color.RGBA{it.Fill[0], it.Fill[1], it.Fill[2], 255}, decos[it.Deco%len(decos)]...)
			if it.Style%2 == 1 {
				face.FauxBold = 0.02
			}
			if it.SharedFace > 0 {
				face = env.Face(it.SharedFace)
			}
			ctx.DrawText(it.X, it.Y+10, canvas.NewTextLine(face, it.Text, canvas.Left))
		}
		ctx.Pop()
	}
	switch d.Post {
	case 1:
		c.Fit(2)
	case 2:
		c.Clip(canvas.Rect{X0: 5, Y0: 5, X1: 45, Y1: 30})
	case 3:
		c.Transform(canvas.Identity.Shear(0.2, 0).Translate(3, 1))
	case 4:
		c.Fit(0)
		c.Transform(canvas.Identity.Scale(0.5, 0.5))
	}
	return c
}

// genImage builds the small test image of a drawing item (a new object on every call).
func genImage(it *DrawItem) image.Image {
	r := simrt.NewRand(it.ImgSeed)
	rect := image.Rect(0, 0, it.ImgW, it.ImgH)
	px := func() (uint8, uint8, uint8, uint8) {
		a := uint8(255)
		if it.ImgKind == 1 || it.ImgKind == 2 {
			a = []uint8{255, 255, 128, 0, 37}[r.Intn(5)]
		}
		return uint8(r.Intn(4) * 85), uint8(r.Intn(4) * 85), uint8(r.Intn(4) * 85), a
	}
	switch it.ImgKind {
	case 2:
		img := image.NewNRGBA(rect)
		for i := 0; i < len(img.Pix); i += 4 {
			img.Pix[i], img.Pix[i+1], img.Pix[i+2], img.Pix[i+3] = px()
		}
		return img
	case 3:
		img := image.NewGray(rect)
		for i := range img.Pix {
			img.Pix[i] = uint8(r.Intn(256))
		}
		return img
	}
	img := image.NewRGBA(rect)
	for i := 0; i < len(img.Pix); i += 4 {
		cr, cg, cb, ca := px()
		// premultiplied
		img.Pix[i], img.Pix[i+1], img.Pix[i+2], img.Pix[i+3] = uint8(uint16(cr)*uint16(ca)/255), uint8(uint16(cg)*uint16(ca)/255), uint8(uint16(cb)*uint16(ca)/255), ca
	}
	return img
}

func renderOnce(c *canvas.Canvas, d0 *Drawing, st *Step) (result Result) {
	d := struct{ W, H float64 }{c.W, c.H} // Fit/Clip change the canvas size
	sink := &faultySink{failAt: st.FailAt}
	buf := sink
	var err error
	switch st.Format {
	case "pdf":
		enc := canvas.Lossless
		if st.Opt&4 != 0 {
			enc = canvas.Lossy
		}
		r := pdf.New(buf, d.W, d.H, &pdf.Options{Compress: st.Opt&1 != 0, SubsetFonts: st.Opt&2 != 0, ImageEncoding: enc})
		c.RenderTo(r)
		err = r.Close()
	case "svg":
		enc := canvas.Lossless
		if st.Opt&4 != 0 {
			enc = canvas.Lossy
		}
		r := svg.New(buf, d.W, d.H, &svg.Options{EmbedFonts: st.Opt&1 != 0, SubsetFonts: st.Opt&2 != 0, SizeUnits: "mm", ImageEncoding: enc})
		c.RenderTo(r)
		err = r.Close()
	case "ps", "eps":
		f := ps.PostScript
		if st.Format == "eps" {
			f = ps.EncapsulatedPostScript
		}
		r := ps.New(buf, d.W, d.H, &ps.Options{Format: f, ImageEncoding: canvas.Lossless})
		c.RenderTo(r)
		err = r.Close()
	case "png":
		res := canvas.DPMM([]float64{2, 4, 1}[st.Opt%3])
		var cs canvas.ColorSpace = canvas.DefaultColorSpace
		switch st.Opt / 3 {
		case 1:
			cs = canvas.SRGBColorSpace{}
		case 2:
			cs = canvas.GammaColorSpace{Gamma: 2.2}
		}
		img := rasterizer.Draw(c, res, cs)
		err = png.Encode(buf, img)
		if err == nil {
			// the returned image is the caller's: its pixels are looked at again after later calls (O7)
			pix := func() uint64 {
				h := newHasher()
				h.bytes(img.Pix)
				return h.h
			}
			defer func(h0 uint64) { result.again, result.againHash = pix, h0 }(pix())
		}
	default:
		panic("unknown format " + st.Format)
	}
	h := newHasher()
	h.bytes(sink.buf.Bytes())
	if err != nil {
		// same error and same bytes accepted before it, nothing more is demanded after a fault
		h.str(err.Error())
		return Result{Kind: "err", Hash: h.h, Brief: fmt.Sprintf("%s: %v after %d bytes", st.Format, err, sink.buf.Len()), Fault: sink.fired}
	}
	return Result{Kind: "bytes", Hash: h.h, Brief: fmt.Sprintf("%s %d bytes", st.Format, sink.buf.Len()), Fault: sink.fired}
}

var _ = text.Glyph{}
