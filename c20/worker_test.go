package c20

import (
	"bufio"
	"encoding/json"
	"flag"
	"fmt"
	"os"
	"path/filepath"
	"runtime"
	"strings"
	"sync/atomic"
	"testing"
	"testing/synctest"
	"time"

	"verif/simrt"
)

var (
	fSeed      = flag.Uint64("verif.seed", 1, "VERIF_SEED")
	fFrom      = flag.Int("verif.from", 0, "first run index")
	fTo        = flag.Int("verif.to", 0, "one past the last run index")
	fStride    = flag.Int("verif.stride", 1, "run index stride")
	fTier      = flag.String("verif.tier", "quick", "tier")
	fOut       = flag.String("verif.out", "", "output file (JSON lines)")
	fRepo      = flag.String("verif.repo", "/repo", "repository checkout (for resources)")
	fScratch   = flag.String("verif.scratch", "", "scratch directory")
	fReplay    = flag.String("verif.replay", "", "replay file to execute instead of generated runs")
	fReplayOut = flag.String("verif.replaydir", "", "directory where replay files of violating runs are written")
	fProfiles  = flag.String("verif.profiles", "", "comma separated profiles (default all)")
	fCPU       = flag.Float64("verif.cpu", 60, "CPU seconds allowed per run before the watchdog stops the worker")
	fRefCPU    = flag.Float64("verif.refcpu", 10, "CPU seconds allowed for the reference phases of a run (a call that does not terminate alone is not a C20 matter: the run is discarded)")
	fSites     = flag.Int("verif.sites", 4096, "number of yield sites")
	fGoSites   = flag.Int("verif.gosites", 0, "number of go statements in the instrumented packages (> 0: reference executions run under the simulator too)")
	fTrace     = flag.Bool("verif.trace", false, "keep the full scheduler trace in replay output")
	fDump      = flag.Bool("verif.dump", false, "print the generated specs of the selected runs and exit")
	fMinimise  = flag.Bool("verif.minimise", false, "minimise the replay file given by -verif.replay")
)

var progRun atomic.Int64
var progPhase atomic.Value
var progCPU atomic.Int64 // cpu ms at the start of the current run

// ReplayFile is the self-contained description of a violating run.
type ReplayFile struct {
	Property   string             `json:"property"`
	Spec       *RunSpec           `json:"spec"`
	Violation  Violation          `json:"violation"`
	All        []Violation        `json:"all_violations,omitempty"`
	Ref        [][]Result         `json:"reference_results,omitempty"`
	Sim        [][]Result         `json:"simulation_results,omitempty"`
	Trace      []simrt.TraceEvent `json:"trace,omitempty"`
	Minimised  bool               `json:"minimised"`
	GoMaxProcs int                `json:"gomaxprocs,omitempty"`  // of the worker that recorded it (code under test may ask)
	TraceHash  uint64             `json:"trace_hash,omitempty"`  // scheduler trace of the recorded execution
	ResultHash uint64             `json:"result_hash,omitempty"` // hash over all simulation-phase results
	Generate   *struct {
		VerifSeed uint64 `json:"verif_seed"`
		Run       int    `json:"run"`
		Tier      string `json:"tier"`
		Profiles  string `json:"profiles"`
	} `json:"generate,omitempty"`
	Note string `json:"note,omitempty"`
}

func setupFontDir(t *testing.T, scratch, repo string) string {
	home := filepath.Join(scratch, "home")
	dir := filepath.Join(home, ".fonts")
	if err := os.MkdirAll(dir, 0o755); err != nil {
		t.Fatal(err)
	}
	for _, n := range []string{"DejaVuSerif.ttf", "EBGaramond12-Regular.otf"} {
		dst := filepath.Join(dir, n)
		if _, err := os.Stat(dst); err == nil {
			continue
		}
		b, err := os.ReadFile(filepath.Join(repo, "resources", n))
		if err != nil {
			t.Fatal(err)
		}
		if err := os.WriteFile(dst, b, 0o644); err != nil {
			t.Fatal(err)
		}
	}
	os.Setenv("HOME", home)
	os.Unsetenv("XDG_DATA_HOME")
	os.Unsetenv("XDG_DATA_DIRS")
	return dir
}

// watchdog runs outside the bubbles, on the real clock. It stops the worker (exit 3) when one run
// burns more CPU than allowed, or when a run makes no progress at all for idleLimit of wall time
// (blocked on a real lock or channel: possible only outside simulations, e.g. a call that blocks
// when run alone).
func watchdog(out *os.File, budgetS, refBudgetS float64) {
	const idleLimit = 240 * time.Second
	lastRun, lastPhase, lastCPU, since := int64(-1), "", 0.0, time.Now()
	for {
		time.Sleep(500 * time.Millisecond)
		start := float64(progCPU.Load())
		if start < 0 {
			since = time.Now()
			continue
		}
		{
			ph, _ := progPhase.Load().(string)
			cpu := cpuMS()
			if progRun.Load() != lastRun || ph != lastPhase || cpu-lastCPU > 50 {
				lastRun, lastPhase, lastCPU, since = progRun.Load(), ph, cpu, time.Now()
			} else if time.Since(since) > idleLimit {
				line := fmt.Sprintf(`{"watchdog":true,"idle":true,"run":%d,"phase":%q,"cpu_ms":%.0f}`+"\n", progRun.Load(), ph, cpu-start)
				if out != nil {
					out.WriteString(line)
					out.Sync()
				}
				os.Stdout.WriteString(line)
				os.Exit(3)
			}
		}
		ph, _ := progPhase.Load().(string)
		limit := budgetS
		if ph != "sim" {
			limit = refBudgetS
		}
		if used := cpuMS() - start; used > limit*1e3 {
			line := fmt.Sprintf(`{"watchdog":true,"run":%d,"phase":%q,"cpu_ms":%.0f}`+"\n", progRun.Load(), ph, used)
			if out != nil {
				out.WriteString(line)
				out.Sync()
			}
			os.Stdout.WriteString(line)
			os.Exit(3)
		}
	}
}

func raceLogSize() int64 {
	// GORACE=log_path=<p> makes the runtime write to <p>.<pid>
	for _, kv := range strings.Fields(os.Getenv("GORACE")) {
		if p, ok := strings.CutPrefix(kv, "log_path="); ok {
			if st, err := os.Stat(fmt.Sprintf("%s.%d", p, os.Getpid())); err == nil {
				return st.Size()
			}
		}
	}
	return 0
}

var workerDone bool

// TestMain: the race detector makes `go test` binaries exit 1 when any race was reported; race
// reports are data here (attributed per run through the log), so a worker that ran to completion
// exits 0.
func TestMain(m *testing.M) {
	code := m.Run()
	if workerDone {
		os.Exit(0)
	}
	os.Exit(code)
}

func TestWorker(t *testing.T) {
	if *fDump {
		var profiles []string
		if *fProfiles != "" {
			profiles = strings.Split(*fProfiles, ",")
		}
		for run := *fFrom; run < *fTo; run += *fStride {
			b, _ := json.Marshal(GenRun(*fSeed, run, *fTier, profiles))
			fmt.Printf("SPEC %s\n", b)
		}
		workerDone = true
		return
	}
	if *fOut == "" && *fReplay == "" {
		t.Skip("worker: no -verif.out / -verif.replay")
	}
	defer func() {
		if !t.Failed() || simrt.RaceBuild {
			workerDone = !t.Skipped()
		}
	}()
	scratch := *fScratch
	if scratch == "" {
		scratch = t.TempDir()
	}
	h := &Harness{Resources: filepath.Join(*fRepo, "resources"), NSites: *fSites, KeepTrace: *fTrace}
	h.FontDir = setupFontDir(t, scratch, *fRepo)
	h.Scratch = scratch
	h.QuiescenceWait = synctest.Wait
	h.SimulatedReference = *fGoSites > 0
	if err := SetupSysDirs(scratch, h.Resources); err != nil {
		t.Fatal(err)
	}
	h.Progress = func(run int, phase string) {
		progRun.Store(int64(run))
		progPhase.Store(phase)
	}
	var out *os.File
	var w *bufio.Writer
	if *fOut != "" {
		var err error
		out, err = os.Create(*fOut)
		if err != nil {
			t.Fatal(err)
		}
		defer out.Close()
		w = bufio.NewWriter(out)
		defer w.Flush()
	}
	progCPU.Store(-1)
	go watchdog(out, *fCPU, *fRefCPU)

	var profiles []string
	if *fProfiles != "" {
		profiles = strings.Split(*fProfiles, ",")
	}

	execute := func(spec *RunSpec) (*RunReport, *Outcome) {
		var rep *RunReport
		var oc *Outcome
		var err error
		progCPU.Store(int64(cpuMS()))
		r0 := raceLogSize()
		// synctest.Test calls t.FailNow (= Goexit of the calling goroutine) when the bubble's T was
		// marked failed, which the testing package does by itself as soon as the race detector has
		// reported anything. Races are data here, so the bubble gets its own goroutine.
		done := make(chan struct{})
		go func() {
			defer close(done)
			defer func() {
				// a task that is blocked forever (reported as a deadlock violation) makes the bubble
				// end with "deadlock: main bubble goroutine has exited but blocked goroutines remain"
				if r := recover(); r != nil && rep == nil {
					panic(r)
				}
			}()
			synctest.Test(t, func(t *testing.T) {
				rep, oc, err = h.Execute(spec)
			})
		}()
		<-done
		if rep == nil && err == nil {
			t.Fatalf("harness error: run did not complete")
		}
		progCPU.Store(-1)
		if err != nil {
			t.Fatalf("harness error: %v", err)
		}
		if rep.Races > 0 {
			rep.RaceFrom, rep.RaceTo = r0, raceLogSize()
		}
		if rep.Races > 0 {
			// generic marker (the driver derives the function-pair signatures from the race log)
			rep.Violations = append(rep.Violations, Violation{Class: "race", Sig: "race", Op: "?", Detail: fmt.Sprintf("%d data race report(s) by the Go race detector", rep.Races)})
		}
		if oc.Sys != nil {
			// linearizability of the recorded system-font-cache history (outside the bubble)
			rep.LinOps = len(oc.Sys.Ops)
			for i, a := range oc.Sys.Ops {
				for _, b := range oc.Sys.Ops[i+1:] {
					if a.ClientId != b.ClientId && a.Call < b.Return && b.Call < a.Return {
						rep.LinConcurrent++
					}
				}
			}
			if ok, _, detail := CheckSysHistory(oc.Sys); !ok {
				rep.Violations = append(rep.Violations, Violation{Class: "linearizability", Op: "system-font-cache",
					Detail: "no sequential order of the calls explains the results: " + detail, Sig: "linearizability:system-font-cache"})
			}
		}
		return rep, oc
	}

	if *fReplay != "" {
		b, err := os.ReadFile(*fReplay)
		if err != nil {
			t.Fatal(err)
		}
		var rf ReplayFile
		if err := json.Unmarshal(b, &rf); err != nil {
			t.Fatal(err)
		}
		if rf.Spec == nil && rf.Generate != nil {
			var ps []string
			if rf.Generate.Profiles != "" {
				ps = strings.Split(rf.Generate.Profiles, ",")
			}
			rf.Spec = GenRun(rf.Generate.VerifSeed, rf.Generate.Run, rf.Generate.Tier, ps)
		}
		if *fMinimise {
			minimise(t, &rf, execute, *fReplay)
			return
		}
		rep, oc := execute(rf.Spec)
		line, _ := json.Marshal(rep)
		fmt.Printf("REPLAY-REPORT %s\n", line)
		if rf.TraceHash != 0 && rep.Stats != nil {
			if rep.Stats.TraceHash == rf.TraceHash && rep.ResultHash == rf.ResultHash {
				fmt.Printf("REPLAY-EXACT scheduler trace and results identical to the recorded execution\n")
			} else {
				fmt.Printf("REPLAY-DIFFERS trace %x (recorded %x) results %x (recorded %x) diverged=%v\n", rep.Stats.TraceHash, rf.TraceHash, rep.ResultHash, rf.ResultHash, rep.Stats.Diverged)
			}
		}
		if w != nil {
			w.Write(line)
			w.WriteByte('\n')
		}
		_ = oc
		return
	}

	for run := *fFrom; run < *fTo; run += *fStride {
		spec := GenRun(*fSeed, run, *fTier, profiles)
		rep, oc := execute(spec)
		line, err := json.Marshal(rep)
		if err != nil {
			t.Fatal(err)
		}
		w.Write(line)
		w.WriteByte('\n')
		if (len(rep.Violations) > 0 || rep.Races > 0) && *fReplayOut != "" {
			writeReplay(t, *fReplayOut, spec, rep, oc)
		}
		w.Flush() // the watchdog writes to the same file and exits without unwinding
	}
}

func writeReplay(t *testing.T, dir string, spec *RunSpec, rep *RunReport, oc *Outcome) string {
	cp := *spec
	cp.Sim.Replay = oc.Recorded
	rf := ReplayFile{Property: "C20", Spec: &cp, All: rep.Violations, Ref: oc.Ref, Sim: oc.Sim, Trace: oc.Trace, ResultHash: rep.ResultHash, GoMaxProcs: runtime.GOMAXPROCS(0)}
	if rep.Stats != nil {
		rf.TraceHash = rep.Stats.TraceHash
	}
	if len(rep.Violations) > 0 {
		rf.Violation = rep.Violations[0]
	}
	b, _ := json.MarshalIndent(rf, "", " ")
	p := filepath.Join(dir, fmt.Sprintf("C20-%d-%d.json", spec.VerifSeed, spec.Run))
	if err := os.WriteFile(p, b, 0o644); err != nil {
		t.Fatal(err)
	}
	return p
}
