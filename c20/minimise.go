package c20

import (
	"encoding/json"
	"fmt"
	"os"
	"sort"
	"strings"
	"testing"
	"time"

	"verif/simrt"
)

// Minimisation: shrink the program (tasks, steps, shapes) and the explicit schedule / fault list
// while a violation with the same signature persists. Program reductions first try the recorded
// decisions; when those no longer fit, a bounded schedule re-search (fresh simulator seeds, same
// policy) looks for the same violation class on the smaller program. Finally the explicit decision
// list itself is reduced with ddmin. Everything runs through the same execute() as normal runs.

type minimiser struct {
	t        *testing.T
	execute  func(*RunSpec) (*RunReport, *Outcome)
	sig      string
	execs    int
	maxExec  int
	deadline time.Time
	research int // schedule seeds tried per candidate
	retries  int // extra attempts per candidate (race reports are probabilistic, see DESIGN §4.6)
	// checkpoint, if set, is called with every candidate that reproduced (each is at most as large
	// as the one before): a candidate that never terminates takes the process down with it, and
	// what was reached until then should not be lost
	checkpoint func(spec *RunSpec, rep *RunReport, oc *Outcome, hit *Violation)
}

func cloneSpec(s *RunSpec) *RunSpec {
	b, _ := json.Marshal(s)
	var c RunSpec
	json.Unmarshal(b, &c)
	return &c
}

func (m *minimiser) budgetLeft() bool {
	return m.execs < m.maxExec && time.Now().Before(m.deadline)
}

// try executes spec and reports whether the target violation shows; on success it returns the
// spec with the explicit decisions of that execution.
func (m *minimiser) try(spec *RunSpec) (*RunSpec, *RunReport, *Outcome) {
	for attempt := 0; attempt <= m.retries; attempt++ {
		if !m.budgetLeft() {
			return nil, nil, nil
		}
		m.execs++
		rep, oc := m.execute(spec)
		for i, v := range rep.Violations {
			if v.Sig == m.sig {
				c := cloneSpec(spec)
				c.Sim.Replay = oc.Recorded
				if m.checkpoint != nil {
					m.checkpoint(c, rep, oc, &rep.Violations[i])
				}
				return c, rep, oc
			}
		}
	}
	return nil, nil, nil
}

// tryWithSearch: recorded decisions first, then fresh schedules.
func (m *minimiser) tryWithSearch(spec *RunSpec) (*RunSpec, *RunReport, *Outcome) {
	if c, r, o := m.try(spec); c != nil {
		return c, r, o
	}
	if strings.HasPrefix(m.sig, "determinism") || strings.HasPrefix(m.sig, "repeat") {
		return nil, nil, nil // decided in the reference phase: schedule-independent
	}
	for i := 0; i < m.research && m.budgetLeft(); i++ {
		c := cloneSpec(spec)
		c.Sim.Replay = nil
		c.Sim.Seed = simrt.Mix(spec.Sim.Seed, 0x5eed, uint64(i))
		switch i % 4 {
		case 0: // few switches, pool behaves like the real one for a lone goroutine: few explicit decisions
			c.Sim.Sched, c.Sim.StayProb = simrt.SchedSticky, 0.99
			c.Sim.PoolFresh, c.Sim.PoolRecent, c.Sim.PoolOldest, c.Sim.PoolRandom, c.Sim.DropRate = 0, 1, 0, 0, 0
		case 1:
			c.Sim.Sched, c.Sim.StayProb = simrt.SchedChase, 0.9
			c.Sim.PoolFresh, c.Sim.PoolRecent, c.Sim.PoolOldest, c.Sim.PoolRandom, c.Sim.DropRate = 0, 1, 0, 0, 0
		case 2:
			c.Sim.Sched = simrt.SchedUniform
		}
		if got, r, o := m.try(c); got != nil {
			return got, r, o
		}
	}
	return nil, nil, nil
}

// contours splits a shape into M...(Z) groups.
func contours(s *Shape) [][]Seg {
	var out [][]Seg
	for _, g := range s.Segs {
		if g.C == "M" || len(out) == 0 {
			out = append(out, nil)
		}
		out[len(out)-1] = append(out[len(out)-1], g)
	}
	return out
}

func joinContours(cs [][]Seg, fam string) *Shape {
	s := &Shape{Family: fam}
	for _, c := range cs {
		s.Segs = append(s.Segs, c...)
	}
	return s
}

// shapeCandidates returns simpler variants of a shape, most aggressive first.
func shapeCandidates(s *Shape) []*Shape {
	if s == nil {
		return nil
	}
	var out []*Shape
	cs := contours(s)
	if len(cs) > 1 {
		for i := range cs {
			rest := append(append([][]Seg{}, cs[:i]...), cs[i+1:]...)
			out = append(out, joinContours(rest, s.Family))
		}
	}
	// drop single interior segments
	for i, g := range s.Segs {
		if g.C == "M" || g.C == "Z" {
			continue
		}
		c := cloneShape(s)
		c.Segs = append(c.Segs[:i], c.Segs[i+1:]...)
		out = append(out, c)
	}
	// curves to lines
	for i, g := range s.Segs {
		if g.C == "Q" || g.C == "C" || g.C == "A" {
			c := cloneShape(s)
			n := len(g.A)
			c.Segs[i] = Seg{C: "L", A: []float64{g.A[n-2], g.A[n-1]}}
			out = append(out, c)
		}
	}
	return out
}

func (m *minimiser) run(spec *RunSpec) *RunSpec {
	cur, _, _ := m.try(spec)
	if cur == nil {
		return nil
	}
	progress := true
	for progress && m.budgetLeft() {
		progress = false
		// 1. drop tasks
		for t := 0; t < len(cur.Tasks) && len(cur.Tasks) > 1; t++ {
			c := cloneSpec(cur)
			c.Tasks = append(c.Tasks[:t], c.Tasks[t+1:]...)
			if len(c.Sim.StepBudget) > t {
				c.Sim.StepBudget = nil
			}
			if got, _, _ := m.tryWithSearch(c); got != nil {
				cur = got
				progress = true
				t--
			}
		}
		// 2. drop steps
		for t := 0; t < len(cur.Tasks); t++ {
			for s := 0; s < len(cur.Tasks[t].Steps) && len(cur.Tasks[t].Steps) > 1; s++ {
				c := cloneSpec(cur)
				c.Tasks[t].Steps = append(c.Tasks[t].Steps[:s], c.Tasks[t].Steps[s+1:]...)
				if got, _, _ := m.tryWithSearch(c); got != nil {
					cur = got
					progress = true
					s--
				}
			}
		}
		// 3. simplify shapes
		for t := 0; t < len(cur.Tasks); t++ {
			for s := 0; s < len(cur.Tasks[t].Steps); s++ {
				for which := 0; which < 2; which++ {
					again := true
					for again && m.budgetLeft() {
						again = false
						st := &cur.Tasks[t].Steps[s]
						sh := st.A
						if which == 1 {
							sh = st.B
						}
						for _, cand := range shapeCandidates(sh) {
							c := cloneSpec(cur)
							if which == 0 {
								c.Tasks[t].Steps[s].A = cand
							} else {
								c.Tasks[t].Steps[s].B = cand
							}
							if got, _, _ := m.tryWithSearch(c); got != nil {
								cur = got
								progress = true
								again = true
								break
							}
						}
					}
				}
				// drawings: drop items
				if d := cur.Tasks[t].Steps[s].Draw; d != nil {
					for i := 0; i < len(cur.Tasks[t].Steps[s].Draw.Items) && len(cur.Tasks[t].Steps[s].Draw.Items) > 1; i++ {
						c := cloneSpec(cur)
						items := c.Tasks[t].Steps[s].Draw.Items
						c.Tasks[t].Steps[s].Draw.Items = append(items[:i], items[i+1:]...)
						if got, _, _ := m.tryWithSearch(c); got != nil {
							cur = got
							progress = true
							i--
						}
					}
				}
			}
		}
		// 4. fonts that are no longer referenced cannot be dropped safely (indices); leave them
	}
	// 5. reduce the explicit decision list (ddmin on each kind), with its own budget
	m.maxExec += m.maxExec
	m.deadline = m.deadline.Add(60 * time.Second)
	cur = m.reduceDecisions(cur)
	return cur
}

func keysOf(mp map[int]int) []int {
	ks := make([]int, 0, len(mp))
	for k := range mp {
		ks = append(ks, k)
	}
	sort.Ints(ks)
	return ks
}

func (m *minimiser) reduceDecisions(cur *RunSpec) *RunSpec {
	if cur.Sim.Replay == nil {
		return cur
	}
	for _, kind := range []string{"drop", "pool", "switch"} {
		get := func(sp *simrt.Sparse) map[int]int {
			switch kind {
			case "drop":
				return sp.Drop
			case "pool":
				return sp.Pool
			}
			return sp.Switch
		}
		keys := keysOf(get(cur.Sim.Replay))
		n := 2
		for len(keys) > 0 && m.budgetLeft() {
			chunk := (len(keys) + n - 1) / n
			reduced := false
			for i := 0; i < len(keys) && m.budgetLeft(); i += chunk {
				end := i + chunk
				if end > len(keys) {
					end = len(keys)
				}
				c := cloneSpec(cur)
				mp := get(c.Sim.Replay)
				for _, k := range keys[i:end] {
					delete(mp, k)
				}
				if got, _, _ := m.try(c); got != nil {
					cur = got
					keys = keysOf(get(cur.Sim.Replay))
					if n > 2 {
						n--
					}
					reduced = true
					break
				}
			}
			if !reduced {
				if chunk <= 1 {
					break
				}
				n *= 2
				if n > len(keys) {
					n = len(keys)
				}
			}
		}
	}
	return cur
}

func minimise(t *testing.T, rf *ReplayFile, execute func(*RunSpec) (*RunReport, *Outcome), path string) {
	if rf.Violation.Class == "nontermination" || rf.Violation.Class == "crash" {
		fmt.Printf("MINIMISE skipped: class %s cannot be minimised in-process\n", rf.Violation.Class)
		return
	}
	m := &minimiser{t: t, execute: execute, sig: rf.Violation.Sig, maxExec: 3000, deadline: time.Now().Add(90 * time.Second), research: 24}
	if rf.Violation.Class == "race" {
		// needs the -race binary with GORACE suppress_equal_stacks=0 suppress_equal_addresses=0 (the
		// detector otherwise reports a racing pair once per process). Criterion: any report.
		if !simrt.RaceBuild {
			fmt.Printf("MINIMISE skipped: race class needs the race binary\n")
			return
		}
		m.sig, m.maxExec, m.research, m.retries = "race", 900, 8, 1
		m.deadline = time.Now().Add(150 * time.Second)
	}
	before := specSize(rf.Spec)
	nckpt := 0
	if rf.Violation.Class != "race" {
		m.checkpoint = func(spec *RunSpec, rep *RunReport, oc *Outcome, hit *Violation) {
			nckpt++
			out := ReplayFile{Property: "C20", Spec: spec, Violation: *hit, All: rep.Violations, Ref: oc.Ref, Sim: oc.Sim, Trace: oc.Trace, Minimised: true,
				Note: fmt.Sprintf("partly minimised from %s to %s (checkpoint %d after %d executions; the minimiser was stopped later)", before, specSize(spec), nckpt, m.execs), ResultHash: rep.ResultHash, GoMaxProcs: rf.GoMaxProcs}
			if rep.Stats != nil {
				out.TraceHash = rep.Stats.TraceHash
			}
			b, _ := json.MarshalIndent(out, "", " ")
			if os.WriteFile(path+".ckpt.tmp", b, 0o644) == nil {
				os.Rename(path+".ckpt.tmp", path+".ckpt")
			}
		}
		defer os.Remove(path + ".ckpt") // only a minimiser that did not get here leaves one behind
	}
	res := m.run(rf.Spec)
	if res == nil {
		fmt.Printf("MINIMISE failed: the violation %q did not reproduce in this process\n", rf.Violation.Sig)
		return
	}
	// final confirmation and full record
	var rep *RunReport
	var oc *Outcome
	var hit *Violation
	for attempt := 0; attempt <= m.retries && hit == nil; attempt++ {
		rep, oc = execute(res)
		for i := range rep.Violations {
			if rep.Violations[i].Sig == m.sig {
				hit = &rep.Violations[i]
			}
		}
	}
	if hit == nil {
		fmt.Printf("MINIMISE failed: minimised spec does not reproduce\n")
		return
	}
	out := ReplayFile{Property: "C20", Spec: res, Violation: *hit, All: rep.Violations, Ref: oc.Ref, Sim: oc.Sim, Trace: oc.Trace, Minimised: true,
		Note: fmt.Sprintf("minimised from %s to %s in %d executions", before, specSize(res), m.execs), ResultHash: rep.ResultHash, GoMaxProcs: rf.GoMaxProcs}
	if rep.Stats != nil {
		out.TraceHash = rep.Stats.TraceHash
	}
	b, _ := json.MarshalIndent(out, "", " ")
	if err := os.WriteFile(path, b, 0o644); err != nil {
		t.Fatal(err)
	}
	fmt.Printf("MINIMISE ok: %s\n", out.Note)
}

func specSize(s *RunSpec) string {
	steps, segs := 0, 0
	for _, t := range s.Tasks {
		steps += len(t.Steps)
		for _, st := range t.Steps {
			if st.A != nil {
				segs += len(st.A.Segs)
			}
			if st.B != nil {
				segs += len(st.B.Segs)
			}
			if st.Draw != nil {
				for _, it := range st.Draw.Items {
					if it.Shape != nil {
						segs += len(it.Shape.Segs)
					}
				}
			}
		}
	}
	dec := 0
	if s.Sim.Replay != nil {
		dec = s.Sim.Replay.Size()
	}
	return fmt.Sprintf("%d tasks/%d calls/%d path segments/%d explicit decisions", len(s.Tasks), steps, segs, dec)
}
