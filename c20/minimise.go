package c20

import "testing"

func minimise(t *testing.T, rf *ReplayFile, execute func(*RunSpec) (*RunReport, *Outcome), path string) {
	t.Skip("minimiser not built yet")
}
