// Package c20 is the workload, oracle, recorder and minimiser of the C20 simulation.
package c20

import (
	"github.com/tdewolff/canvas"

	"verif/simrt"
)

// Seg is one path command: M x y | L x y | Q cx cy x y | C c1x c1y c2x c2y x y |
// A rx ry rot large sweep x y | Z.
type Seg struct {
	C string    `json:"c"`
	A []float64 `json:"a,omitempty"`
}

// Shape is an explicit path description (kept explicit so that replay files are self-contained and
// the minimiser can delete segments).
type Shape struct {
	Family string `json:"family,omitempty"` // where the generator took it from (informational)
	Segs   []Seg  `json:"segs"`
}

// Step is one API call of a task program.
type Step struct {
	Op string `json:"op"`
	// geometry
	A        *Shape    `json:"a,omitempty"`
	B        *Shape    `json:"b,omitempty"`
	FillRule int       `json:"fill_rule,omitempty"`
	W        float64   `json:"w,omitempty"`
	Cap      int       `json:"cap,omitempty"`
	Join     int       `json:"join,omitempty"`
	Tol      float64   `json:"tol,omitempty"`
	Dashes   []float64 `json:"dashes,omitempty"`
	Offset   float64   `json:"offset,omitempty"`
	AsPaths  bool      `json:"as_paths,omitempty"`  // use the Paths form of the boolean operation
	ChainA   bool      `json:"chain_a,omitempty"`   // operand A is the path returned by this task's previous call (if that returned a path)
	EmptySub int       `json:"empty_sub,omitempty"` // Paths form only: an empty subpath in the list (1 appended to the subject, 2 appended to the clip, 3 in front of the subject)
	// text / fonts / rendering
	Font    int      `json:"font,omitempty"` // index into the run's font table
	Text    string   `json:"text,omitempty"`
	Size    float64  `json:"size,omitempty"`
	Style   int      `json:"style,omitempty"`
	Variant int      `json:"variant,omitempty"`
	Deco    int      `json:"deco,omitempty"`
	Width   float64  `json:"width,omitempty"`
	Height  float64  `json:"height,omitempty"`
	HAlign  int      `json:"halign,omitempty"`
	VAlign  int      `json:"valign,omitempty"`
	WMode   int      `json:"wmode,omitempty"`  // richtext: 0 horizontal, 1 vertical RL, 2 vertical LR
	Orient  int      `json:"orient,omitempty"` // richtext: text orientation for vertical modes
	Draw    *Drawing `json:"draw,omitempty"`
	Format  string   `json:"format,omitempty"`
	Opt     int      `json:"opt,omitempty"`
	SVG     string   `json:"svg,omitempty"` // svgpath: parse this string (one of a few that several calls of a run share) instead of the shape's
	// SharedFace k > 0: the text uses face k of the run's shared *FontFace objects instead of a face of its own
	SharedFace int  `json:"shared_face,omitempty"`
	Repeat     bool `json:"repeat,omitempty"`  // render: render the same canvas object a second time, the output must be identical
	FailAt     int  `json:"fail_at,omitempty"` // render: the sink returns an error from the k-th Write on (0 = never)
}

// Drawing is a small canvas program rendered by the "render" operation.
type Drawing struct {
	W     float64    `json:"w"`
	H     float64    `json:"h"`
	Items []DrawItem `json:"items"`
	Post  int        `json:"post,omitempty"` // after drawing: 1 Fit(2), 2 Clip, 3 Transform (shear), 4 Fit(0)+Transform
}

// DrawItem is one drawing command.
type DrawItem struct {
	Kind       string    `json:"kind"` // path | text
	SharedFace int       `json:"shared_face,omitempty"`
	Paint      int       `json:"paint,omitempty"` // 0 colour, 1 linear gradient, 2 radial gradient, 3 line hatch, 4 cross hatch, 5-9 the run's shared paint objects
	Shape      *Shape    `json:"shape,omitempty"`
	Fill       [4]uint8  `json:"fill"`
	Stroke     [4]uint8  `json:"stroke"`
	SW         float64   `json:"sw,omitempty"`
	Dashes     []float64 `json:"dashes,omitempty"`
	Z          int       `json:"z,omitempty"`
	X          float64   `json:"x,omitempty"`
	Y          float64   `json:"y,omitempty"`
	Rot        float64   `json:"rot,omitempty"`
	Font       int       `json:"font,omitempty"`
	Size       float64   `json:"size,omitempty"`
	Text       string    `json:"text,omitempty"`
	Deco       int       `json:"deco,omitempty"`
	Style      int       `json:"style,omitempty"`
	// image: ImgW x ImgH pixels generated from ImgSeed (ImgKind 0 opaque RGBA, 1 with alpha, 2 NRGBA, 3 gray), drawn at Res dots/mm
	ImgW    int     `json:"img_w,omitempty"`
	ImgH    int     `json:"img_h,omitempty"`
	ImgSeed uint64  `json:"img_seed,omitempty"`
	ImgKind int     `json:"img_kind,omitempty"`
	Res     float64 `json:"res,omitempty"`
}

// TaskSpec is the program of one caller goroutine.
type TaskSpec struct {
	Steps   []Step `json:"steps"`
	MapSeed uint64 `json:"map_seed"`
}

// Tunables are the package-level knobs set before the tasks start.
type Tunables struct {
	Tolerance      float64 `json:"tolerance"`
	PixelTolerance float64 `json:"pixel_tolerance"`
	Precision      int     `json:"precision"`
	FastStroke     bool    `json:"fast_stroke"`
}

// RunSpec is everything that determines one simulated run.
type RunSpec struct {
	VerifSeed uint64       `json:"verif_seed"`
	Run       int          `json:"run"`
	RunSeed   uint64       `json:"run_seed"`
	Profile   string       `json:"profile"`
	Tunables  Tunables     `json:"tunables"`
	Fonts     []string     `json:"fonts,omitempty"` // font table: resource names ("noname:<name>" = name-less subset)
	Tasks     []TaskSpec   `json:"tasks"`
	Sim       simrt.Config `json:"sim"`
	MapSeed2  uint64       `json:"map_seed2"`  // second map-order stream for the determinism oracle
	ColdStart bool         `json:"cold_start"` // pools not yet initialised when the tasks start
}

// Result is the canonical outcome of one step.
type Result struct {
	Kind  string `json:"kind"` // path | bytes | text | font | err | panic | abort | skipped
	Hash  uint64 `json:"hash"`
	Brief string `json:"brief"`
	Fault bool   `json:"fault,omitempty"` // an injected sink error fired during this call
	// MutatedLater is set when the returned path object was found changed after a LATER call that
	// was not given it as an argument (results must not share state with later calls).
	MutatedLater string `json:"mutated_later,omitempty"`
	obj          *canvas.Path
	// again, if set, recomputes a content hash of another kind of returned object (the pixels of a
	// rasterised image); againHash is its value when the call returned.
	again     func() uint64
	againHash uint64
	// RepeatDiff is set when the call was asked to repeat itself on the very same input objects and
	// the second output differed from the first ("repeated calls with the same inputs ...").
	RepeatDiff string `json:"repeat_diff,omitempty"`
}

func (r Result) Equal(o Result) bool { return r.Kind == o.Kind && r.Hash == o.Hash }

// Violation describes a failed oracle.
type Violation struct {
	Class  string `json:"class"` // solo-equality | new-panic | deadlock | budget | determinism | race | nontermination
	Task   int    `json:"task"`
	Step   int    `json:"step"`
	Op     string `json:"op"`
	Detail string `json:"detail"`
	Sig    string `json:"sig"` // stable signature used for known-findings matching
}

// RunReport is the JSON line a worker prints per run.
type RunReport struct {
	Run           int          `json:"run"`
	RunSeed       uint64       `json:"run_seed"`
	Profile       string       `json:"profile"`
	Tasks         int          `json:"tasks"`
	Steps         int          `json:"steps"`
	Ops           []string     `json:"ops"`
	RefPanics     int          `json:"ref_panics"`
	Violations    []Violation  `json:"violations,omitempty"`
	Stats         *simrt.Stats `json:"stats"`
	SitePairs     []uint64     `json:"site_pairs,omitempty"`
	SiteHits      map[int]int  `json:"site_hits,omitempty"`
	Ranges        uint64       `json:"ranges"`
	RangesMulti   uint64       `json:"ranges_multi"`
	Races         int          `json:"races"`
	RaceFrom      int64        `json:"race_from,omitempty"`
	RaceTo        int64        `json:"race_to,omitempty"`
	CPUms         float64      `json:"cpu_ms"`
	RefCPUms      float64      `json:"ref_cpu_ms"`
	ResultHash    uint64       `json:"result_hash"` // hash over all simulation-phase results (determinism self-test)
	Nontrivial    bool         `json:"nontrivial"`
	SinkFaults    int          `json:"sink_faults,omitempty"`
	DetChecked    int          `json:"det_checked,omitempty"` // calls re-run alone under a second map order
	Discarded     string       `json:"discarded,omitempty"`   // why the run was not simulated
	RepeatChecked int          `json:"repeat_checked,omitempty"`
	LinOps        int          `json:"lin_ops,omitempty"`
	LinConcurrent int          `json:"lin_concurrent_pairs,omitempty"`
}
