#!/bin/sh
# Offline setup: build the instrumenter and warm the Go build cache for the worker binaries.
set -e
cd "$(dirname "$0")"
export GOFLAGS=-mod=mod GOPROXY=off GOSUMDB=off GOTOOLCHAIN=local
go1.26.8 build -o /dev/null ./instrument
go1.26.8 vet ./simrt/... >/dev/null 2>&1 || true
# warm the caches (plain and race) by building the uninstrumented dependencies once
go1.26.8 build ./simrt/... 
go1.26.8 build -race ./simrt/...
(cd /repo && go1.26.8 build . ./text ./renderers/pdf ./renderers/svg ./renderers/ps ./renderers/rasterizer && go1.26.8 build -race . ./text ./renderers/pdf ./renderers/svg ./renderers/ps ./renderers/rasterizer)
echo setup ok
