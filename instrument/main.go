// verif-instrument writes instrumented copies of the canvas packages of a repository checkout and
// an overlay.json for `go build -overlay`. Nothing in the checkout is modified.
//
// Rewrites (all by splicing text on the same line, so line numbers of the original are kept):
//
//  1. import "sync"            ->  import sync "verif/simrt/ssync"
//  2. range m  (m is a map)    ->  range simrt.Range(m)
//  3. before every statement that touches a package-level variable that is mutated somewhere in
//     non-test code:  simrt.Yield(<site>);
//  4. one generated file per package, zz_verif_gen.go, with VerifResetGlobals() that puts every
//     such variable (and every variable initialised from package sync) back to its initial value.
//
// usage: verif-instrument -repo /repo -out <dir> [pkg ...]
package main

import (
	"bytes"
	"encoding/json"
	"flag"
	"fmt"
	"go/ast"
	"go/importer"
	"go/parser"
	"go/token"
	"go/types"
	"io"
	"os"
	"os/exec"
	"path/filepath"
	"regexp"
	"sort"
	"strings"
)

const canvasMod = "github.com/tdewolff/canvas"

var defaultPkgs = []string{
	canvasMod,
	canvasMod + "/text",
	canvasMod + "/renderers/pdf",
	canvasMod + "/renderers/svg",
	canvasMod + "/renderers/ps",
	canvasMod + "/renderers/rasterizer",
}

type listPkg struct {
	ImportPath string
	Dir        string
	Export     string
	GoFiles    []string
	CgoFiles   []string
	Standard   bool
	Error      *struct{ Err string }
}

type Site struct {
	ID   int    `json:"id"`
	File string `json:"file"`
	Line int    `json:"line"`
	Kind string `json:"kind"`
	Var  string `json:"var,omitempty"`
}

type Report struct {
	Repo        string            `json:"repo"`
	Packages    []string          `json:"packages"`
	Sites       []Site            `json:"sites"`
	RangeSites  []Site            `json:"range_sites"`
	RangeNative []Site            `json:"range_left_native"`
	GoSites     []Site            `json:"go_statements_rewritten"`
	SyncFiles   []string          `json:"sync_redirected_files"`
	MutatedVars []string          `json:"mutated_globals"`
	ResetVars   []string          `json:"reset_globals"`
	ExtMutated  []string          `json:"globals_written_from_another_package"`
	SkippedSync int               `json:"uses_that_are_sync_calls_themselves"`
	ChanSites   int               `json:"yield_sites_before_channel_operations"`
	Overlay     map[string]string `json:"-"`
}

type edit struct {
	off  int
	del  int
	text string
	seq  int
}

func fatal(format string, args ...any) {
	fmt.Fprintf(os.Stderr, "verif-instrument: "+format+"\n", args...)
	os.Exit(2)
}

func main() {
	repo := flag.String("repo", "/repo", "repository checkout")
	out := flag.String("out", "", "output directory (must exist)")
	flag.Parse()
	pkgs := flag.Args()
	if len(pkgs) == 0 {
		pkgs = defaultPkgs
	}
	if *out == "" {
		fatal("-out required")
	}
	absRepo, _ := filepath.Abs(*repo)

	// 1. package metadata + export data of all dependencies
	args := append([]string{"list", "-export", "-deps", "-json=ImportPath,Dir,Export,GoFiles,CgoFiles,Standard,Error"}, pkgs...)
	cmd := exec.Command(goTool(), args...)
	cmd.Dir = absRepo
	cmd.Stderr = os.Stderr
	raw, err := cmd.Output()
	if err != nil {
		fatal("go list failed: %v", err)
	}
	byPath := map[string]*listPkg{}
	dec := json.NewDecoder(bytes.NewReader(raw))
	for {
		var lp listPkg
		if err := dec.Decode(&lp); err == io.EOF {
			break
		} else if err != nil {
			fatal("go list output: %v", err)
		}
		p := lp
		byPath[lp.ImportPath] = &p
	}

	fset := token.NewFileSet()
	imp := importer.ForCompiler(fset, "gc", func(path string) (io.ReadCloser, error) {
		lp := byPath[path]
		if lp == nil || lp.Export == "" {
			return nil, fmt.Errorf("no export data for %s", path)
		}
		return os.Open(lp.Export)
	})

	rep := &Report{Repo: absRepo, Packages: pkgs, Overlay: map[string]string{}}
	siteID := 0
	targets := map[string]bool{}
	for _, p := range pkgs {
		targets[p] = true
	}
	// pass 1: which package-level variables of the target packages are written from ANOTHER target
	// package (e.g. a renderer assigning canvas.Tolerance)
	ext := map[string]bool{}
	for pi, path := range pkgs {
		lp := byPath[path]
		if lp == nil {
			fatal("package %s not found", path)
		}
		if lp.Error != nil {
			fatal("package %s: %s", path, lp.Error.Err)
		}
		instrumentPackage(fset, imp, lp, pi, *out, nil, &siteID, targets, ext)
	}
	for k := range ext {
		rep.ExtMutated = append(rep.ExtMutated, k)
	}
	sort.Strings(rep.ExtMutated)
	for pi, path := range pkgs {
		lp := byPath[path]
		if lp == nil {
			fatal("package %s not found", path)
		}
		if lp.Error != nil {
			fatal("package %s: %s", path, lp.Error.Err)
		}
		instrumentPackage(fset, imp, lp, pi, *out, rep, &siteID, targets, ext)
	}

	ov := struct{ Replace map[string]string }{rep.Overlay}
	b, _ := json.MarshalIndent(ov, "", " ")
	if err := os.WriteFile(filepath.Join(*out, "overlay.json"), b, 0o644); err != nil {
		fatal("%v", err)
	}
	b, _ = json.MarshalIndent(rep, "", " ")
	if err := os.WriteFile(filepath.Join(*out, "sites.json"), b, 0o644); err != nil {
		fatal("%v", err)
	}
	fmt.Printf("instrumented %d packages: %d yield sites on %d mutated globals, %d map ranges rewritten (%d left native), %d files redirected from sync\n",
		len(pkgs), len(rep.Sites), len(rep.MutatedVars), len(rep.RangeSites), len(rep.RangeNative), len(rep.SyncFiles))
}

func goTool() string {
	if g := os.Getenv("VERIF_GO"); g != "" {
		return g
	}
	return "go1.26.8"
}

// instrumentPackage with rep == nil only collects cross-package writes into ext.
func instrumentPackage(fset *token.FileSet, imp types.Importer, lp *listPkg, pi int, out string, rep *Report, siteID *int, targets, ext map[string]bool) {
	collectOnly := rep == nil
	if collectOnly {
		rep = &Report{Overlay: map[string]string{}}
	}
	var files []*ast.File
	var names []string
	srcs := map[string][]byte{}
	for _, f := range lp.GoFiles {
		full := filepath.Join(lp.Dir, f)
		src, err := os.ReadFile(full)
		if err != nil {
			fatal("%v", err)
		}
		af, err := parser.ParseFile(fset, full, src, parser.ParseComments|parser.SkipObjectResolution)
		if err != nil {
			fatal("parse %s: %v", full, err)
		}
		files = append(files, af)
		names = append(names, full)
		srcs[full] = src
	}
	info := &types.Info{
		Types: map[ast.Expr]types.TypeAndValue{},
		Uses:  map[*ast.Ident]types.Object{},
		Defs:  map[*ast.Ident]types.Object{},
	}
	var terrs []error
	conf := types.Config{Importer: imp, Error: func(err error) { terrs = append(terrs, err) }}
	pkg, _ := conf.Check(lp.ImportPath, fset, files, info)
	if len(terrs) > 0 {
		for i, e := range terrs {
			if i < 10 {
				fmt.Fprintln(os.Stderr, e)
			}
		}
		fatal("type errors in %s", lp.ImportPath)
	}

	// package-level variables and which of them are mutated
	globals := map[types.Object]*ast.ValueSpec{}
	globalIdx := map[types.Object]int{}
	var globalOrder []types.Object
	for _, f := range files {
		for _, d := range f.Decls {
			gd, ok := d.(*ast.GenDecl)
			if !ok || gd.Tok != token.VAR {
				continue
			}
			for _, sp := range gd.Specs {
				vs := sp.(*ast.ValueSpec)
				for i, n := range vs.Names {
					if n.Name == "_" {
						continue
					}
					if obj := info.Defs[n]; obj != nil {
						globals[obj] = vs
						globalIdx[obj] = i
						globalOrder = append(globalOrder, obj)
					}
				}
			}
		}
	}
	rootGlobal := func(e ast.Expr) types.Object {
		for {
			switch x := e.(type) {
			case *ast.Ident:
				if obj := info.Uses[x]; obj != nil {
					if _, ok := globals[obj]; ok {
						return obj
					}
				}
				return nil
			case *ast.SelectorExpr:
				// pkg.Var of another package is not ours, but remember that it is written
				if id, ok := x.X.(*ast.Ident); ok {
					if _, isPkg := info.Uses[id].(*types.PkgName); isPkg {
						if v, ok := info.Uses[x.Sel].(*types.Var); ok && v.Pkg() != nil && targets[v.Pkg().Path()] && v.Parent() == v.Pkg().Scope() {
							return v // a variable of another target package
						}
						return nil
					}
				}
				e = x.X
			case *ast.IndexExpr:
				e = x.X
			case *ast.ParenExpr:
				e = x.X
			case *ast.StarExpr:
				e = x.X
			case *ast.SliceExpr:
				e = x.X
			default:
				return nil
			}
		}
	}
	mutated := map[types.Object]bool{}
	mark := func(g types.Object) {
		if _, own := globals[g]; own {
			mutated[g] = true
		} else if g.Pkg() != nil {
			ext[g.Pkg().Path()+"."+g.Name()] = true
		}
	}
	for _, f := range files {
		ast.Inspect(f, func(n ast.Node) bool {
			switch x := n.(type) {
			case *ast.AssignStmt:
				for _, l := range x.Lhs {
					if g := rootGlobal(l); g != nil {
						mark(g)
					}
				}
			case *ast.IncDecStmt:
				if g := rootGlobal(x.X); g != nil {
					mark(g)
				}
			case *ast.UnaryExpr:
				if x.Op == token.AND {
					if g := rootGlobal(x.X); g != nil {
						mark(g)
					}
				}
			case *ast.RangeStmt:
				if x.Tok == token.ASSIGN {
					for _, l := range []ast.Expr{x.Key, x.Value} {
						if l != nil {
							if g := rootGlobal(l); g != nil {
								mark(g)
							}
						}
					}
				}
			case *ast.CallExpr:
				// method call with pointer receiver on an addressable global (e.g. systemFonts.Lock())
				if sel, ok := x.Fun.(*ast.SelectorExpr); ok {
					if g := rootGlobal(sel.X); g != nil {
						if fn, ok := info.Uses[sel.Sel].(*types.Func); ok {
							if sig, ok := fn.Type().(*types.Signature); ok && sig.Recv() != nil {
								if _, ptr := sig.Recv().Type().(*types.Pointer); ptr {
									if _, isPtr := g.Type().Underlying().(*types.Pointer); !isPtr {
										mark(g)
									}
								}
							}
						}
					}
				}
			}
			return true
		})
	}

	for _, g := range globalOrder {
		if ext[lp.ImportPath+"."+g.Name()] {
			mutated[g] = true
		}
	}
	// variables assigned in init() functions: their initial value is not the declared one
	setInInit := map[types.Object]bool{}
	for _, f := range files {
		for _, d := range f.Decls {
			fd, ok := d.(*ast.FuncDecl)
			if !ok || fd.Recv != nil || fd.Name.Name != "init" || fd.Body == nil {
				continue
			}
			ast.Inspect(fd.Body, func(n ast.Node) bool {
				switch x := n.(type) {
				case *ast.AssignStmt:
					for _, l := range x.Lhs {
						if g := rootGlobal(l); g != nil {
							setInInit[g] = true
						}
					}
				case *ast.IncDecStmt:
					if g := rootGlobal(x.X); g != nil {
						setInInit[g] = true
					}
				}
				return true
			})
		}
	}
	if collectOnly {
		return
	}
	// uses of other target packages' variables that are written from somewhere
	foreignMutated := func(obj types.Object) bool {
		v, ok := obj.(*types.Var)
		return ok && v.Pkg() != nil && v.Pkg().Path() != lp.ImportPath && targets[v.Pkg().Path()] && v.Parent() == v.Pkg().Scope() && ext[v.Pkg().Path()+"."+v.Name()]
	}

	usesSync := func(vs *ast.ValueSpec) bool {
		found := false
		for _, v := range vs.Values {
			ast.Inspect(v, func(n ast.Node) bool {
				if sel, ok := n.(*ast.SelectorExpr); ok {
					if id, ok := sel.X.(*ast.Ident); ok {
						if pn, ok := info.Uses[id].(*types.PkgName); ok && pn.Imported().Path() == "sync" {
							found = true
						}
					}
				}
				return true
			})
		}
		return found
	}

	for _, g := range globalOrder {
		if mutated[g] {
			rep.MutatedVars = append(rep.MutatedVars, pkg.Name()+"."+g.Name())
		}
	}

	// per-file edits
	fileEdits := map[string][]edit{}
	outDir := filepath.Join(out, fmt.Sprintf("p%d_%s", pi, pkg.Name()))
	if err := os.MkdirAll(outDir, 0o755); err != nil {
		fatal("%v", err)
	}
	for fi, f := range files {
		full := names[fi]
		src := srcs[full]
		base := fset.File(f.Pos()).Base()
		off := func(p token.Pos) int { return int(p) - base }
		var edits []edit
		seq := 0
		add := func(o, del int, text string) {
			edits = append(edits, edit{off: o, del: del, text: text, seq: seq})
			seq++
		}
		needSimrt := false
		rel, _ := filepath.Rel(rep.Repo, full)

		// 1. sync import
		for _, is := range f.Imports {
			var defName, target string
			switch is.Path.Value {
			case `"sync"`:
				defName, target = "sync", "verif/simrt/ssync"
			case `"sync/atomic"`:
				defName, target = "atomic", "verif/simrt/satomic"
			default:
				continue
			}
			if is.Name != nil {
				add(off(is.Name.Pos()), int(is.Path.End()-is.Name.Pos()), is.Name.Name+` "`+target+`"`)
			} else {
				add(off(is.Path.Pos()), int(is.Path.End()-is.Path.Pos()), defName+` "`+target+`"`)
			}
			rep.SyncFiles = append(rep.SyncFiles, rel+" ("+defName+")")
		}

		// parent map for statement lookup
		parents := map[ast.Node]ast.Node{}
		var stack []ast.Node
		ast.Inspect(f, func(n ast.Node) bool {
			if n == nil {
				stack = stack[:len(stack)-1]
				return true
			}
			if len(stack) > 0 {
				parents[n] = stack[len(stack)-1]
			}
			stack = append(stack, n)
			return true
		})

		// 2. range over map
		ast.Inspect(f, func(n ast.Node) bool {
			rs, ok := n.(*ast.RangeStmt)
			if !ok {
				return true
			}
			tv, ok := info.Types[rs.X]
			if !ok {
				return true
			}
			if _, isMap := tv.Type.Underlying().(*types.Map); !isMap {
				return true
			}
			pos := fset.Position(rs.Pos())
			site := Site{File: rel, Line: pos.Line, Kind: "range-map", Var: types.ExprString(rs.X)}
			add(off(rs.X.Pos()), 0, "simrt_V.Range(")
			add(off(rs.X.End()), 0, ")")
			needSimrt = true
			site.ID = len(rep.RangeSites)
			rep.RangeSites = append(rep.RangeSites, site)
			return true
		})

		// 2b. go statements: the new goroutine becomes a simulated task
		ast.Inspect(f, func(n ast.Node) bool {
			gs, ok := n.(*ast.GoStmt)
			if !ok {
				return true
			}
			call := gs.Call
			pos := fset.Position(gs.Pos())
			rep.GoSites = append(rep.GoSites, Site{ID: len(rep.GoSites), File: rel, Line: pos.Line, Kind: "go"})
			needSimrt = true
			if fl, ok := call.Fun.(*ast.FuncLit); ok && len(call.Args) == 0 {
				// go func() {...}()   ->   simrt.Go(func() {...})
				add(off(gs.Pos()), int(fl.Pos()-gs.Pos()), "simrt_V.Go(")
				add(off(fl.End()), int(call.End()-fl.End()), ")")
				return true
			}
			// go f(a, b)   ->   simrt.Go(func() func() { __f := f; __a0 := a; __a1 := b; return func() { __f(__a0, __a1) } }())
			// (function value and arguments are evaluated at the go statement, as the language says)
			var pre, args strings.Builder
			src := srcs[full]
			text := func(a, b token.Pos) string { return string(src[off(a):off(b)]) }
			pre.WriteString("__f := " + text(call.Fun.Pos(), call.Fun.End()) + "; ")
			for i, a := range call.Args {
				if i > 0 {
					args.WriteString(", ")
				}
				if tv, ok := info.Types[a]; ok && (tv.Value != nil || tv.IsNil()) {
					// constants (possibly untyped) and nil are passed as written
					args.WriteString(text(a.Pos(), a.End()))
					continue
				}
				fmt.Fprintf(&pre, "__a%d := %s; ", i, text(a.Pos(), a.End()))
				fmt.Fprintf(&args, "__a%d", i)
				if i == len(call.Args)-1 && call.Ellipsis.IsValid() {
					args.WriteString("...")
				}
			}
			add(off(gs.Pos()), int(gs.End()-gs.Pos()), "simrt_V.Go(func() func() { "+pre.String()+"return func() { __f("+args.String()+") } }())")
			return false
		})

		// 3. yields before statements touching mutated globals
		stmtOf := func(n ast.Node) ast.Stmt {
			// innermost enclosing statement that is an element of a statement list
			var cur ast.Node = n
			for cur != nil {
				p := parents[cur]
				if st, ok := cur.(ast.Stmt); ok {
					switch st.(type) {
					case *ast.CaseClause, *ast.CommClause:
						// e.g. `case global = <-ch:`: nothing can be inserted in front of a clause;
						// go on to the enclosing switch/select statement
						cur = p
						continue
					}
					switch pp := p.(type) {
					case *ast.BlockStmt:
						return st
					case *ast.CaseClause:
						for _, b := range pp.Body {
							if b == st {
								return st
							}
						}
					case *ast.CommClause:
						for _, b := range pp.Body {
							if b == st {
								return st
							}
						}
					case *ast.LabeledStmt:
						// keep climbing: insert before the label
					}
				}
				cur = p
			}
			return nil
		}
		yielded := map[ast.Stmt]bool{}
		ast.Inspect(f, func(n ast.Node) bool {
			id, ok := n.(*ast.Ident)
			if !ok {
				return true
			}
			obj := info.Uses[id]
			if obj == nil || !(mutated[obj] || foreignMutated(obj)) {
				return true
			}
			st := stmtOf(id)
			if st == nil {
				return true // package-level initialiser
			}
			// G.Get()/G.Put()/G.Lock()... on a value of package sync is a decision point by itself
			if sel, ok := parents[id].(*ast.SelectorExpr); ok && sel.X == id {
				if call, ok := parents[sel].(*ast.CallExpr); ok && call.Fun == sel {
					if fn, ok := info.Uses[sel.Sel].(*types.Func); ok && fn.Pkg() != nil && fn.Pkg().Path() == "sync" {
						rep.SkippedSync++
						return true
					}
				}
			}
			// climb labels
			for {
				if ls, ok := parents[st].(*ast.LabeledStmt); ok {
					st = ls
					continue
				}
				break
			}
			if yielded[st] {
				return true
			}
			yielded[st] = true
			pos := fset.Position(st.Pos())
			site := Site{ID: *siteID, File: rel, Line: pos.Line, Kind: "global", Var: obj.Name()}
			*siteID++
			rep.Sites = append(rep.Sites, site)
			add(off(st.Pos()), 0, fmt.Sprintf("simrt_V.Yield(%d); ", site.ID))
			needSimrt = true
			return true
		})

		// 3b. yields before statements with channel operations (send, receive, select, close, range
		// over a channel): the scheduler can then hold a goroutine back right in front of its select
		// while the others run on - which of several ready cases the runtime then picks stays the
		// runtime's choice (DESIGN.md §6)
		ast.Inspect(f, func(n ast.Node) bool {
			isChanOp := false
			switch x := n.(type) {
			case *ast.SendStmt, *ast.SelectStmt:
				isChanOp = true
			case *ast.UnaryExpr:
				isChanOp = x.Op == token.ARROW
			case *ast.RangeStmt:
				if tv, ok := info.Types[x.X]; ok && tv.Type != nil {
					_, isChanOp = tv.Type.Underlying().(*types.Chan)
				}
			case *ast.CallExpr:
				if id, ok := x.Fun.(*ast.Ident); ok && id.Name == "close" {
					_, isChanOp = info.Uses[id].(*types.Builtin)
				}
			}
			if !isChanOp {
				return true
			}
			st := stmtOf(n)
			if st == nil {
				return true
			}
			for {
				if ls, ok := parents[st].(*ast.LabeledStmt); ok {
					st = ls
					continue
				}
				break
			}
			if yielded[st] {
				return true
			}
			yielded[st] = true
			pos := fset.Position(st.Pos())
			site := Site{ID: *siteID, File: rel, Line: pos.Line, Kind: "chan"}
			*siteID++
			rep.Sites = append(rep.Sites, site)
			rep.ChanSites++
			add(off(st.Pos()), 0, fmt.Sprintf("simrt_V.Yield(%d); ", site.ID))
			needSimrt = true
			return true
		})

		fileEdits[full] = append([]edit(nil), edits...)
		if len(edits) == 0 {
			continue
		}
		if needSimrt {
			// after the package clause, same line
			add(off(f.Name.End()), 0, `; import simrt_V "verif/simrt"`)
		}
		sort.SliceStable(edits, func(a, b int) bool {
			if edits[a].off != edits[b].off {
				return edits[a].off > edits[b].off
			}
			// at one offset a replacement goes first, so that what is inserted there (a yield in
			// front of a rewritten go statement) ends up before it and is not eaten by it
			if (edits[a].del > 0) != (edits[b].del > 0) {
				return edits[a].del > 0
			}
			return edits[a].seq > edits[b].seq
		})
		res := append([]byte(nil), src...)
		for _, e := range edits {
			res = append(res[:e.off], append([]byte(e.text), res[e.off+e.del:]...)...)
		}
		dst := filepath.Join(outDir, filepath.Base(full))
		if err := os.WriteFile(dst, res, 0o644); err != nil {
			fatal("%v", err)
		}
		rep.Overlay[full] = dst
	}

	// 4. generated reset file
	typePkgs = map[string]string{}
	var gen bytes.Buffer
	fmt.Fprintf(&gen, "// Code generated by verif-instrument. DO NOT EDIT.\n\npackage %s\n\n", pkg.Name())
	var body bytes.Buffer
	needSync := false
	for _, g := range globalOrder {
		vs := globals[g]
		if !mutated[g] && !usesSync(vs) {
			continue
		}
		if setInInit[g] {
			continue // cannot be put back without re-running init()
		}
		name := g.Name()
		idx := globalIdx[g]
		if n, ok := g.Type().(*types.Named); ok && n.Obj().Pkg() != nil && n.Obj().Pkg().Path() == "sync" && len(vs.Values) != len(vs.Names) {
			// a lock / once / map / pool held by value and declared without initialiser: a fresh
			// process has the zero value (with an initialiser, e.g. sync.Pool{New: ...}, it is
			// re-evaluated below)
			fmt.Fprintf(&body, "\t%s = *new(%s)\n", name, types.TypeString(g.Type(), qualifier(pkg)))
			rep.ResetVars = append(rep.ResetVars, pkg.Name()+"."+name)
			continue
		}
		if at := atomicStoreType(g.Type(), pkg); at != "" {
			// sync/atomic value: back to zero through its own API
			fmt.Fprintf(&body, "\t%s.Store(*new(%s))\n", name, at)
			rep.ResetVars = append(rep.ResetVars, pkg.Name()+"."+name)
			continue
		}
		switch {
		case len(vs.Values) == len(vs.Names):
			fn := fset.Position(vs.Pos()).Filename
			b := fset.File(vs.Pos()).Base()
			expr := editedRange(srcs[fn], fileEdits[fn], int(vs.Values[idx].Pos())-b, int(vs.Values[idx].End())-b)
			if n, ok := g.Type().(*types.Named); ok && n.Obj().Pkg() != nil && n.Obj().Pkg().Path() == "sync" {
				fmt.Fprintf(&body, "\t%s = %s\n", name, expr)
				rep.ResetVars = append(rep.ResetVars, pkg.Name()+"."+name)
				continue
			}
			if containsSyncType(g.Type()) && !isFuncOrPtr(g.Type()) {
				// cannot copy a lock: reset the other fields one by one
				// (from a fresh evaluation of the initialiser, whose own locks are simply not copied)
				if st, ok := g.Type().Underlying().(*types.Struct); ok {
					fmt.Fprintf(&body, "\t{\n\t\tfresh := %s\n", expr)
					for i := 0; i < st.NumFields(); i++ {
						fld := st.Field(i)
						if !(fld.Exported() || fld.Pkg() == pkg) || fld.Name() == "_" {
							continue
						}
						if at := atomicStoreType(fld.Type(), pkg); at != "" && at != "any" && at != "interface{}" {
							fmt.Fprintf(&body, "\t\t%s.%s.Store(fresh.%s.Load())\n", name, fld.Name(), fld.Name())
							continue
						}
						if containsSyncType(fld.Type()) {
							continue
						}
						fmt.Fprintf(&body, "\t\t%s.%s = fresh.%s\n", name, fld.Name(), fld.Name())
					}
					fmt.Fprintf(&body, "\t\t_ = &fresh\n\t}\n")
					rep.ResetVars = append(rep.ResetVars, pkg.Name()+"."+name)
				}
				continue
			}
			if strings.Contains(expr, "sync.") {
				needSync = true
			}
			fmt.Fprintf(&body, "\t%s = %s\n", name, expr)
		case len(vs.Values) == 0:
			// zero value, field by field where the struct holds sync or sync/atomic values: an
			// atomic field is state like any other (a lock-free list head) and goes back to zero
			// through its own API
			var zero func(expr string, t types.Type, depth int)
			zero = func(expr string, t types.Type, depth int) {
				if at := atomicStoreType(t, pkg); at != "" && at != "any" && at != "interface{}" {
					fmt.Fprintf(&body, "\t%s.Store(*new(%s))\n", expr, at)
					return
				}
				if st, ok := t.Underlying().(*types.Struct); ok && containsSyncType(t) && depth < 4 {
					if n, ok := t.(*types.Named); !ok || n.Obj().Pkg() == nil || (n.Obj().Pkg().Path() != "sync" && n.Obj().Pkg().Path() != "sync/atomic") {
						for i := 0; i < st.NumFields(); i++ {
							fld := st.Field(i)
							if fld.Name() == "_" || !(fld.Exported() || fld.Pkg() == pkg) {
								continue
							}
							zero(expr+"."+fld.Name(), fld.Type(), depth+1)
						}
						return
					}
				}
				fmt.Fprintf(&body, "\t%s = *new(%s)\n", expr, types.TypeString(t, qualifier(pkg)))
			}
			zero(name, g.Type(), 0)
		default:
			continue // multi-value initialiser: leave alone
		}
		rep.ResetVars = append(rep.ResetVars, pkg.Name()+"."+name)
	}
	// imports needed by type strings in the reset body: resolve by scanning for "pkg." prefixes
	imports := map[string]string{}
	for _, f := range files {
		for _, is := range f.Imports {
			p := strings.Trim(is.Path.Value, `"`)
			n := filepath.Base(p)
			if is.Name != nil {
				n = is.Name.Name
			} else if ip := pkg.Imports(); ip != nil {
				for _, q := range ip {
					if q.Path() == p {
						n = q.Name()
					}
				}
			}
			imports[n] = p
		}
	}
	bs := body.String()
	var impLines []string
	for n, p := range imports {
		if n == "_" || n == "." {
			continue
		}
		if regexp.MustCompile(`(^|[^A-Za-z0-9_])` + regexp.QuoteMeta(n) + `\.`).MatchString(bs) {
			if p == "sync" {
				p = "verif/simrt/ssync"
				_ = needSync
			} else if p == "sync/atomic" {
				p = "verif/simrt/satomic"
			}
			impLines = append(impLines, fmt.Sprintf("\t%s %q\n", n, p))
		}
	}
	for path, alias := range typePkgs {
		if path == "sync" {
			path = "verif/simrt/ssync"
		} else if path == "sync/atomic" {
			path = "verif/simrt/satomic"
		}
		if strings.Contains(bs, alias+".") {
			impLines = append(impLines, fmt.Sprintf("\t%s %q\n", alias, path))
		}
	}
	if strings.Contains(bs, "simrt_V.") {
		impLines = append(impLines, "\tsimrt_V \"verif/simrt\"\n")
	}
	sort.Strings(impLines)
	if len(impLines) > 0 {
		fmt.Fprintf(&gen, "import (\n%s)\n\n", strings.Join(impLines, ""))
	}
	fmt.Fprintf(&gen, "// VerifResetGlobals puts the package-level state back to what a fresh process has.\nfunc VerifResetGlobals() {\n%s}\n", bs)
	genPath := filepath.Join(outDir, "zz_verif_gen.go")
	if err := os.WriteFile(genPath, gen.Bytes(), 0o644); err != nil {
		fatal("%v", err)
	}
	rep.Overlay[filepath.Join(lp.Dir, "zz_verif_gen.go")] = genPath
}

// atomicStoreType returns the parameter type of Store for sync/atomic value types ("" otherwise).
func atomicStoreType(t types.Type, pkg *types.Package) string {
	n, ok := t.(*types.Named)
	if !ok || n.Obj().Pkg() == nil || n.Obj().Pkg().Path() != "sync/atomic" {
		return ""
	}
	ms := types.NewMethodSet(types.NewPointer(t))
	for i := 0; i < ms.Len(); i++ {
		if f := ms.At(i).Obj(); f.Name() == "Store" {
			if sig, ok := f.Type().(*types.Signature); ok && sig.Params().Len() == 1 {
				return types.TypeString(sig.Params().At(0).Type(), qualifier(pkg))
			}
		}
	}
	return ""
}

// editedRange returns src[start:end] with the edits that fall inside that range applied.
func editedRange(src []byte, edits []edit, start, end int) string {
	var in []edit
	for _, e := range edits {
		if e.off >= start && e.off+e.del <= end {
			in = append(in, e)
		}
	}
	sort.SliceStable(in, func(a, b int) bool {
		if in[a].off != in[b].off {
			return in[a].off > in[b].off
		}
		if (in[a].del > 0) != (in[b].del > 0) {
			return in[a].del > 0
		}
		return in[a].seq > in[b].seq
	})
	res := append([]byte(nil), src[start:end]...)
	for _, e := range in {
		o := e.off - start
		res = append(res[:o], append([]byte(e.text), res[o+e.del:]...)...)
	}
	return string(res)
}

// typePkgs collects the packages named in generated type strings: they are imported in the generated
// file under private aliases (t_<name>), independent of how the package's own files name them.
var typePkgs = map[string]string{} // import path -> alias

func qualifier(pkg *types.Package) types.Qualifier {
	return func(p *types.Package) string {
		if p == pkg {
			return ""
		}
		alias := "t_" + p.Name()
		for path, a := range typePkgs {
			if a == alias && path != p.Path() {
				alias = fmt.Sprintf("t_%s_%d", p.Name(), len(typePkgs))
			}
		}
		if a, ok := typePkgs[p.Path()]; ok {
			return a
		}
		typePkgs[p.Path()] = alias
		return alias
	}
}

func isFuncOrPtr(t types.Type) bool {
	switch t.Underlying().(type) {
	case *types.Signature, *types.Pointer:
		return true
	}
	return false
}

// containsSyncType reports whether a value of type t embeds (by value) a type of package sync.
func containsSyncType(t types.Type) bool {
	seen := map[types.Type]bool{}
	var rec func(t types.Type) bool
	rec = func(t types.Type) bool {
		if seen[t] {
			return false
		}
		seen[t] = true
		if n, ok := t.(*types.Named); ok {
			if p := n.Obj().Pkg(); p != nil && (p.Path() == "sync" || p.Path() == "sync/atomic") {
				return true
			}
		}
		switch u := t.Underlying().(type) {
		case *types.Struct:
			for i := 0; i < u.NumFields(); i++ {
				if rec(u.Field(i).Type()) {
					return true
				}
			}
		case *types.Array:
			return rec(u.Elem())
		}
		return false
	}
	return rec(t)
}
