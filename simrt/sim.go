package simrt

import (
	"fmt"
	"runtime"
	"sync"
	"sync/atomic"
	"time"
	"unsafe"
)

// Kind of a decision point.
type Kind uint8

const (
	KStart Kind = iota
	KYield
	KGet
	KPut
	KLock
	KUnlock
	KRLock
	KRUnlock
	KOnceEnter
	KOnceDone
	KStep
	KStamp
	KSpawn
	KEnd
)

var kindNames = [...]string{"start", "yield", "get", "put", "lock", "unlock", "rlock", "runlock", "once-enter", "once-done", "step", "stamp", "spawn", "end"}

func (k Kind) String() string { return kindNames[k] }

// Scheduler policies.
const (
	SchedUniform = iota
	SchedSticky
	SchedChase
	SchedPCT
	schedPolicies
)

var SchedNames = [...]string{"uniform", "sticky", "chase", "pct"}

// Config is the explicit, seed-derived configuration of one simulated execution.
type Config struct {
	Seed       uint64  `json:"seed"`        // scheduler + pool streams derive from it
	Sched      int     `json:"sched"`       // policy
	StayProb   float64 `json:"stay_prob"`   // sticky/chase: probability to stay on the running task
	PCTDepth   int     `json:"pct_depth"`   // number of priority change points
	PCTLen     int     `json:"pct_len"`     // estimated number of events (for placing change points)
	PoolFresh  int     `json:"pool_fresh"`  // weights of what a Get returns when the free list is not empty
	PoolRecent int     `json:"pool_recent"` //
	PoolOldest int     `json:"pool_oldest"` //
	PoolRandom int     `json:"pool_random"` //
	DropRate   float64 `json:"drop_rate"`   // probability per decision point that one pool is emptied (GC)
	LivePct    int     `json:"live_pct"`    // percentage of global-variable yield sites that are live this run
	// ClockSkipPct: percentage of the starts of API calls at which the (bubble) clock is first moved
	// forward by a duration between a millisecond and a month - a suspended laptop, a long-lived
	// server. Which starts and how far is a function of Seed, task and call index.
	ClockSkipPct int     `json:"clock_skip_pct,omitempty"`
	StepBudget   []int   `json:"step_budget"` // per task: max decision points (0 = unlimited)
	Replay       *Sparse `json:"replay,omitempty"`
}

// Sparse is the explicit decision list of a run: everything that differs from the default
// behaviour (stay on the running task, else lowest runnable id; Get returns the most recently put
// object; no drops). A run in generate mode records its Sparse; a run in replay mode follows it.
type Sparse struct {
	Switch map[int]int `json:"switch"` // event index -> task to run
	Pool   map[int]int `json:"pool"`   // event index of the Get being completed -> -1 fresh, k = k-th most recent
	Drop   map[int]int `json:"drop"`   // event index -> pool id emptied before the decision
}

func newSparse() *Sparse {
	return &Sparse{Switch: map[int]int{}, Pool: map[int]int{}, Drop: map[int]int{}}
}

// Size is the number of explicit decisions.
func (sp *Sparse) Size() int { return len(sp.Switch) + len(sp.Pool) + len(sp.Drop) }

// Stats are measured by the scheduler goroutine during one run.
type Stats struct {
	Events         int            `json:"events"`
	Switches       int            `json:"switches"`       // the next task differs from the one that just ran
	SwitchesInOp   int            `json:"switches_in_op"` // ... and the one that just ran was not at start/end
	ByKind         map[string]int `json:"by_kind"`
	PoolFresh      int            `json:"pool_fresh"`
	PoolFreshOnly  int            `json:"pool_fresh_forced"` // free list empty
	PoolRecent     int            `json:"pool_recent"`
	PoolOldest     int            `json:"pool_oldest"`
	PoolRandom     int            `json:"pool_random"`
	CrossReuse     int            `json:"cross_task_reuse"`         // Get returned an object put by another task
	ReuseLive      int            `json:"reuse_while_putter_in_op"` // ... while the putting task is still inside the same step
	Drops          int            `json:"pool_drops"`
	DoublePut      int            `json:"double_put"`
	SameObjTwice   int            `json:"same_object_handed_out_while_still_listed"`
	SiteHits       map[int32]int  `json:"-"`
	SharedSites    int            `json:"yield_sites_hit_by_2plus_tasks"`
	siteTasks      map[int32]uint64
	Contended      int            `json:"lock_contended"`
	OnceRun        int            `json:"once_run"`
	OnceWait       int            `json:"once_wait"`
	ChaseHits      int            `json:"chase_after_put"`
	Deadlocks      int            `json:"deadlocks"`
	BudgetAborts   int            `json:"budget_aborts"`
	ClockSkips     int            `json:"clock_skips"`               // clock moved forward at the start of a call (fault kind clock-skip)
	SimTimeMs      int64          `json:"sim_time_ms"`               // simulated time covered by skips and jumps
	ClockJumps     int            `json:"clock_jumps"`               // simulated hours skipped because only timers could make progress
	ExternalBlocks int            `json:"blocked_outside_simulator"` // a task blocked on a channel/Cond/... of the code under test
	Leaked         []int          `json:"tasks_blocked_forever,omitempty"`
	Spawned        int            `json:"goroutines_started_by_the_code_under_test"`
	Diverged       bool           `json:"replay_diverged"`
	TraceHash      uint64         `json:"trace_hash"`
	SitePairs      map[uint64]int `json:"-"` // (kind/site of task i) -> (kind/site of next task j != i)
	PerTaskEvents  []int          `json:"per_task_events"`
}

// ErrAbort is the panic value thrown into a task when the scheduler aborts it.
type ErrAbort struct{ Reason string }

func (e ErrAbort) Error() string { return "simrt abort: " + e.Reason }

type req struct {
	seed uint64 // KSpawn: seed for the child's map-order stream (drawn from the parent's)
	task *task
	kind Kind
	site int32
	key  unsafe.Pointer
	obj  any
}

type resp struct {
	ev     int
	child  *task
	abort  string
	obj    any
	fresh  bool
	run    bool
	waited bool
}

type taskState uint8

const (
	tsNew taskState = iota
	tsPending
	tsRunning
	tsDone
	tsExternal // blocked on something the simulator does not model (channel, Cond, WaitGroup, ...)
)

type task struct {
	id       int
	resp     chan resp
	finished chan struct{} // closed by the task goroutine when it exits (publishes its writes to Run's caller)
	// owned by the scheduler goroutine:
	state   taskState
	pending req
	events  int
	step    int // bumped by StepMark
	aborted bool
	prio    int
	dynamic bool  // started by a go statement of the code under test
	order   *Rand // map-order stream; used only by the task goroutine itself
}

type freeEntry struct {
	obj    any
	ptr    unsafe.Pointer
	by     int
	byStep int
}

type poolState struct {
	id     int
	free   []freeEntry
	listed map[unsafe.Pointer]int // how often an object is in free (2 = double Put)
}

type mutexState struct {
	id      int
	held    bool
	owner   int
	readers int
}

type onceState struct {
	running bool
	done    bool
}

// Sim is one simulated execution.
type Sim struct {
	cfg   Config
	tasks []*task
	reqCh chan req
	done  chan struct{}

	sched *Rand
	pool  *Rand

	pools   map[unsafe.Pointer]*poolState
	poolIdx []*poolState
	mutexes map[unsafe.Pointer]*mutexState
	onces   map[unsafe.Pointer]*onceState

	ev        int
	stats     Stats
	rec       *Sparse
	pctAt     map[int]bool
	lastPut   *poolState
	lastKind  Kind
	lastSite  int32
	Trace     []TraceEvent
	keepTrace bool

	awaitStart  *task         // child of the go statement just executed: its start request must arrive before anything else is decided
	quiescent   func()        // blocks until every other goroutine of the bubble is durably blocked (synctest.Wait)
	skipPending time.Duration // clock skip drawn while a call was in flight (see complete, KStep)
	stuck       chan struct{} // monitor -> scheduler: nothing can run
	monDone     chan struct{} // closed when the monitor goroutine has left synctest.Wait for good
}

// TraceEvent is one scheduler decision (kept only when tracing is requested).
type TraceEvent struct {
	Ev   int    `json:"ev"`
	Task int    `json:"task"`
	Kind string `json:"kind"`
	Site int32  `json:"site,omitempty"`
	Note string `json:"note,omitempty"`
}

var active atomic.Pointer[Sim]
var curTask atomic.Pointer[task]

// freeRunning is set once a task of the current simulation may run outside the scheduler's
// one-at-a-time regime (it blocked on a primitive of the code under test and was released by
// another task). From then on the calling task is identified by its goroutine id instead of by
// "the task the scheduler resumed last".
var freeRunning atomic.Bool
var gtab sync.Map // goroutine id -> *task

func goid() uint64 {
	var buf [64]byte
	n := runtime.Stack(buf[:], false)
	// "goroutine 123 [running]:"
	var id uint64
	for _, c := range buf[len("goroutine "):n] {
		if c < '0' || c > '9' {
			break
		}
		id = id*10 + uint64(c-'0')
	}
	return id
}

// Active reports whether a simulation is running.
func Active() bool { return active.Load() != nil }

// New prepares a simulation with n tasks. mapSeeds[i] seeds task i's map-order stream.
func New(cfg Config, n int, mapSeeds []uint64, keepTrace bool) *Sim {
	s := &Sim{
		cfg:       cfg,
		reqCh:     make(chan req),
		done:      make(chan struct{}),
		sched:     NewRand(MixS(cfg.Seed, "sched")),
		pool:      NewRand(MixS(cfg.Seed, "pool")),
		pools:     map[unsafe.Pointer]*poolState{},
		mutexes:   map[unsafe.Pointer]*mutexState{},
		onces:     map[unsafe.Pointer]*onceState{},
		rec:       newSparse(),
		keepTrace: keepTrace,
	}
	s.stats.ByKind = map[string]int{}
	s.stats.SitePairs = map[uint64]int{}
	s.stats.SiteHits = map[int32]int{}
	s.stats.siteTasks = map[int32]uint64{}
	s.stats.TraceHash = 14695981039346656037
	for i := 0; i < n; i++ {
		t := &task{id: i, resp: make(chan resp), finished: make(chan struct{}), order: NewRand(mapSeeds[i])}
		s.tasks = append(s.tasks, t)
	}
	if cfg.Replay == nil && cfg.Sched == SchedPCT {
		r := NewRand(MixS(cfg.Seed, "pct"))
		for _, t := range s.tasks {
			t.prio = 1000 + r.Intn(1000000)
		}
		s.pctAt = map[int]bool{}
		l := cfg.PCTLen
		if l < 10 {
			l = 10
		}
		for i := 0; i < cfg.PCTDepth; i++ {
			s.pctAt[r.Intn(l)] = true
		}
	}
	return s
}

// Quiet runs f with the race detector's synchronisation tracking switched off (simulator
// bookkeeping must not create happens-before edges between tasks).
func Quiet(f func()) {
	raceDisable()
	f()
	raceEnable()
}

// soloOps counts the decision points that calls outside simulations WOULD have been (pool, lock,
// once, map, atomic operations and yield sites reached while no simulation is active): the cost of
// a call when run alone, which the step budget of the simulation phase is relative to.
var soloOps atomic.Int64

func SoloOps() int  { return int(soloOps.Load()) }
func ResetSoloOps() { soloOps.Store(0) }
func noteSolo() {
	raceDisable()
	soloOps.Add(1)
	raceEnable()
}

var countingGets atomic.Bool

// CountGets makes ssync count pool requests also inside simulations (simulated reference runs).
func CountGets(on bool)  { countingGets.Store(on) }
func CountingGets() bool { return countingGets.Load() }

// SetOrder replaces task i's map-order stream (so that a sequence of one-task simulations can
// share one stream). Call before Run.
func (s *Sim) SetOrder(i int, r *Rand) { s.tasks[i].order = r }

// SetQuiescenceWait installs a function that blocks until every other goroutine of the run is
// durably blocked (testing/synctest.Wait inside a bubble). With it the scheduler notices when the
// running task blocks on something the simulator does not model (a channel, sync.Cond or WaitGroup
// of the code under test): that task is set aside, the others go on, and if it is still blocked when
// everybody else has finished it is reported as blocked forever.
func (s *Sim) SetQuiescenceWait(f func()) { s.quiescent = f }

// Run executes the task bodies under the scheduler and returns when all have ended (or are
// blocked forever, see Stats().Leaked).
func (s *Sim) Run(bodies []func()) {
	if len(bodies) != len(s.tasks) {
		panic("simrt: wrong number of bodies")
	}
	if !active.CompareAndSwap(nil, s) {
		panic("simrt: simulation already active")
	}
	freeRunning.Store(false)
	gtab.Clear()
	for i := range bodies {
		t, body := s.tasks[i], bodies[i]
		go func() {
			defer close(t.finished)
			register(t)
			s.call(t, req{task: t, kind: KStart})
			defer func() { s.call(t, req{task: t, kind: KEnd}) }()
			body()
		}()
	}
	if s.quiescent != nil {
		s.stuck = make(chan struct{})
		s.monDone = make(chan struct{})
		go s.monitor()
	}
	go s.loop()
	<-s.done
	leaked := map[int]bool{}
	for _, id := range s.stats.Leaked {
		leaked[id] = true
	}
	for _, t := range s.tasks {
		if !leaked[t.id] {
			<-t.finished
		}
	}
	if s.monDone != nil {
		// the monitor sits in synctest.Wait, which returns once everybody else is durably blocked:
		// this receive is that moment. Only one goroutine per bubble may be in Wait, so the next
		// simulation of this bubble must not start before the monitor is gone.
		<-s.monDone
	}
	curTask.Store(nil)
	active.Store(nil)
}

func register(t *task) {
	raceDisable()
	gtab.Store(goid(), t)
	raceEnable()
}

func (s *Sim) monitor() {
	raceDisable()
	defer raceEnable()
	defer close(s.monDone)
	for {
		s.quiescent()
		select {
		case <-s.done:
			return
		case s.stuck <- struct{}{}:
		}
	}
}

// Stats returns the measured statistics; valid after Run.
func (s *Sim) Stats() *Stats { return &s.stats }

// Recorded returns the explicit decision list of the run; valid after Run.
func (s *Sim) Recorded() *Sparse { return s.rec }

// call is executed by a task goroutine: hand the request to the scheduler and park until resumed.
func (s *Sim) call(t *task, r req) resp {
	raceDisable()
	s.reqCh <- r
	rs := <-t.resp
	raceEnable()
	if rs.abort != "" {
		panic(ErrAbort{rs.abort})
	}
	return rs
}

func current() (*Sim, *task) {
	s := active.Load()
	if s == nil {
		return nil, nil
	}
	raceDisable()
	var t *task
	if freeRunning.Load() {
		if v, ok := gtab.Load(goid()); ok {
			t = v.(*task)
		}
	} else {
		t = curTask.Load()
	}
	raceEnable()
	if t == nil {
		panic("simrt: call from a goroutine that is not a simulated task while a simulation is active")
	}
	return s, t
}

// ---------------------------------------------------------------------------------------------
// scheduler goroutine

func (s *Sim) hash(vs ...uint64) {
	h := s.stats.TraceHash
	for _, v := range vs {
		for i := 0; i < 8; i++ {
			h ^= (v >> (8 * i)) & 0xff
			h *= 1099511628211
		}
	}
	s.stats.TraceHash = h
}

func (s *Sim) loop() {
	raceDisable() // never re-enabled before the final close: nothing here may create HB edges
	n := len(s.tasks)
	for i := 0; i < n; i++ {
		r := <-s.reqCh
		r.task.pending = r
		r.task.state = tsPending
	}
	s.stats.PerTaskEvents = make([]int, n)
	cur := -1
	for {
		// optional GC-like drop of one pool, decided before choosing who runs
		s.maybeDrop()

		runnable := s.runnable()
		if len(runnable) == 0 {
			external := false
			for _, t := range s.tasks {
				if t.state == tsExternal {
					external = true
				}
			}
			if external && s.stuck != nil {
				// tasks that were set aside may have been released and be running freely right now:
				// wait until one of them reaches a decision point, or until the monitor says that
				// every goroutine is durably blocked
				select {
				case r := <-s.reqCh:
					s.accept(r.task, r)
					continue
				case <-s.stuck:
				}
			}
			blocked := -1
			for _, t := range s.tasks {
				if t.state == tsPending {
					blocked = t.id
					break
				}
			}
			if blocked < 0 {
				if external && s.jumpClock() {
					continue // a timer of the code under test fired and released somebody
				}
				for _, t := range s.tasks {
					if t.state == tsExternal {
						s.stats.Leaked = append(s.stats.Leaked, t.id)
					}
				}
				break // all done (or blocked forever outside the simulator)
			}
			s.stats.Deadlocks++
			t := s.tasks[blocked]
			t.aborted = true
			s.trace(t, "abort", "deadlock")
			s.resume(t, resp{abort: "deadlock: every unfinished task is blocked"})
			cur = blocked
			continue
		}
		next := s.pick(cur, runnable)
		t := s.tasks[next]
		if cur >= 0 && next != cur {
			s.stats.Switches++
			if s.lastKind != KEnd && s.lastKind != KStart {
				s.stats.SwitchesInOp++
			}
			a := uint64(s.lastKind)<<24 | uint64(uint32(s.lastSite))&0xffffff
			b := uint64(t.pending.kind)<<24 | uint64(uint32(t.pending.site))&0xffffff
			s.stats.SitePairs[a<<32|b]++
		}
		cur = next
		rs := s.complete(t)
		s.resume(t, rs)
	}
	raceEnable()
	close(s.done)
}

// jumpClock is the discrete-event step: nothing is runnable but some tasks wait outside the
// simulator's primitives. Inside a synctest bubble the scheduler sleeps one (fake) hour: every
// goroutine is then durably blocked, so the bubble's clock jumps to the next timer - a time.Sleep /
// time.After of the code under test fires first and its task runs on to its next decision point.
// It reports whether a task came back. Bounded per run.
func (s *Sim) jumpClock() bool {
	if s.quiescent == nil || s.stats.ClockJumps >= 200 {
		return false
	}
	waiting := false
	for _, t := range s.tasks {
		if t.state == tsExternal {
			waiting = true
		}
	}
	if !waiting {
		return false
	}
	s.stats.ClockJumps++
	s.stats.SimTimeMs += time.Hour.Milliseconds()
	time.Sleep(time.Hour)
	progressed := false
	for {
		select {
		case r := <-s.reqCh: // released tasks are parked here already (see above)
			s.accept(r.task, r)
			progressed = true
			continue
		default:
		}
		break
	}
	select {
	case <-s.stuck: // the monitor's notice from before the jump
	default:
	}
	return progressed
}

// resume lets task t run until its next request and handles that request.
func (s *Sim) resume(t *task, rs resp) {
	t.state = tsRunning
	curTask.Store(t)
	t.resp <- rs
	for {
		var r req
		if s.stuck == nil {
			r = <-s.reqCh
		} else {
			select {
			case r = <-s.reqCh:
			case <-s.stuck:
				// every goroutine is durably blocked although t was given the processor: t waits
				// on something the simulator does not model
				t.state = tsExternal
				freeRunning.Store(true)
				s.stats.ExternalBlocks++
				s.trace(t, "blocked-outside-simulator", "")
				s.hash(0xb10c, uint64(t.id))
				return
			}
		}
		if r.task != t {
			if r.task.state == tsNew && r.kind == KStart {
				// the goroutine of a go statement the running task has just executed
				r.task.pending = r
				r.task.state = tsPending
				continue
			}
			if r.task.state != tsExternal {
				panic(fmt.Sprintf("simrt: request from task %d while task %d is running", r.task.id, t.id))
			}
			// a task that was blocked outside the simulator got released and reached a decision point
			s.accept(r.task, r)
			continue
		}
		s.accept(t, r)
		// after a go statement: the child registers before anything else is decided (determinism)
		for s.awaitStart != nil && s.awaitStart.state == tsNew {
			r := <-s.reqCh
			if r.task == s.awaitStart && r.kind == KStart {
				r.task.pending = r
				r.task.state = tsPending
			} else if r.task.state == tsExternal {
				s.accept(r.task, r)
			} else {
				panic(fmt.Sprintf("simrt: unexpected request from task %d while waiting for a spawned goroutine", r.task.id))
			}
		}
		s.awaitStart = nil
		return
	}
}

// accept books the request r that task t has just made.
func (s *Sim) accept(t *task, r req) {
	s.ev++
	s.stats.Events++
	t.events++
	s.stats.PerTaskEvents[t.id]++
	s.stats.ByKind[r.kind.String()]++
	s.lastKind, s.lastSite = r.kind, r.site
	s.lastPut = nil
	s.hash(uint64(t.id), uint64(r.kind), uint64(uint32(r.site)))
	s.trace(t, r.kind.String(), "")
	switch r.kind {
	case KEnd:
		t.state = tsDone
		// the task goroutine is parked on t.resp; release it
		t.resp <- resp{}
		return
	case KPut:
		p := s.poolOf(r.key)
		ptr := dataPtr(r.obj)
		if p.listed[ptr] > 0 {
			s.stats.DoublePut++
		}
		p.listed[ptr]++
		p.free = append(p.free, freeEntry{obj: r.obj, ptr: ptr, by: t.id, byStep: t.step})
		s.lastPut = p
	case KUnlock:
		m := s.mutexOf(r.key)
		m.held = false
	case KRUnlock:
		m := s.mutexOf(r.key)
		if m.readers > 0 {
			m.readers--
		}
	case KOnceDone:
		o := s.onceOf(r.key)
		o.running = false
		o.done = true
	case KStep:
		t.step++
	case KYield:
		s.stats.SiteHits[r.site]++
		m := s.stats.siteTasks[r.site]
		if m != 0 && m&(1<<uint(t.id)) == 0 && m&(m-1) == 0 {
			s.stats.SharedSites++
		}
		s.stats.siteTasks[r.site] = m | 1<<uint(t.id)
	}
	t.pending = r
	t.state = tsPending
	if (r.kind == KLock || r.kind == KRLock || r.kind == KOnceEnter) && !s.feasible(t) {
		if r.kind == KOnceEnter {
			s.stats.OnceWait++
		} else {
			s.stats.Contended++
		}
	}
	if b := s.budget(t); b > 0 && t.events > b && !t.aborted {
		t.aborted = true
		s.stats.BudgetAborts++
		s.trace(t, "abort", "budget")
		s.resume(t, resp{abort: fmt.Sprintf("step budget exceeded: task %d made more than %d decision points", t.id, b)})
	}
}

func (s *Sim) budget(t *task) int {
	if t.id < len(s.cfg.StepBudget) {
		return s.cfg.StepBudget[t.id]
	}
	return 0
}

func (s *Sim) trace(t *task, kind, note string) {
	if s.keepTrace && len(s.Trace) < 200000 {
		s.Trace = append(s.Trace, TraceEvent{Ev: s.ev, Task: t.id, Kind: kind, Site: t.pending.site, Note: note})
	}
}

func (s *Sim) poolOf(key unsafe.Pointer) *poolState {
	p := s.pools[key]
	if p == nil {
		p = &poolState{id: len(s.poolIdx), listed: map[unsafe.Pointer]int{}}
		s.pools[key] = p
		s.poolIdx = append(s.poolIdx, p)
	}
	return p
}

func (s *Sim) mutexOf(key unsafe.Pointer) *mutexState {
	m := s.mutexes[key]
	if m == nil {
		m = &mutexState{id: len(s.mutexes)}
		s.mutexes[key] = m
	}
	return m
}

func (s *Sim) onceOf(key unsafe.Pointer) *onceState {
	o := s.onces[key]
	if o == nil {
		o = &onceState{}
		s.onces[key] = o
	}
	return o
}

func (s *Sim) feasible(t *task) bool {
	switch t.pending.kind {
	case KLock:
		m := s.mutexOf(t.pending.key)
		return !m.held && m.readers == 0
	case KRLock:
		return !s.mutexOf(t.pending.key).held
	case KOnceEnter:
		return !s.onceOf(t.pending.key).running
	}
	return true
}

func (s *Sim) runnable() []int {
	var rs []int
	for _, t := range s.tasks {
		if t.state == tsPending {
			if s.feasible(t) {
				rs = append(rs, t.id)
			}
		}
	}
	return rs
}

func contains(xs []int, x int) bool {
	for _, v := range xs {
		if v == x {
			return true
		}
	}
	return false
}

func (s *Sim) pick(cur int, runnable []int) int {
	def := runnable[0]
	if cur >= 0 && contains(runnable, cur) {
		def = cur
	}
	if sp := s.cfg.Replay; sp != nil {
		if w, ok := sp.Switch[s.ev]; ok {
			if contains(runnable, w) {
				if w != def {
					s.rec.Switch[s.ev] = w
				}
				return w
			}
			s.stats.Diverged = true
		}
		return def
	}
	choice := def
	switch s.cfg.Sched {
	case SchedUniform:
		choice = runnable[s.sched.Intn(len(runnable))]
	case SchedSticky, SchedChase:
		chased := false
		if s.cfg.Sched == SchedChase && s.lastPut != nil && len(runnable) > 1 {
			// after a Put prefer a task that is about to Get from the same pool
			var cands []int
			for _, id := range runnable {
				t := s.tasks[id]
				if id != cur && t.pending.kind == KGet && s.pools[t.pending.key] == s.lastPut {
					cands = append(cands, id)
				}
			}
			if len(cands) > 0 && s.sched.Bool(0.7) {
				choice = cands[s.sched.Intn(len(cands))]
				s.stats.ChaseHits++
				chased = true
			}
		}
		if !chased {
			if def == cur && s.sched.Bool(s.cfg.StayProb) {
				choice = cur
			} else {
				choice = runnable[s.sched.Intn(len(runnable))]
			}
		}
	case SchedPCT:
		if s.pctAt[s.ev] && cur >= 0 {
			// demote the running task below everyone
			min := s.tasks[0].prio
			for _, t := range s.tasks {
				if t.prio < min {
					min = t.prio
				}
			}
			s.tasks[cur].prio = min - 1
		}
		best := runnable[0]
		for _, id := range runnable {
			if s.tasks[id].prio > s.tasks[best].prio {
				best = id
			}
		}
		choice = best
	}
	if choice != def {
		s.rec.Switch[s.ev] = choice
	}
	return choice
}

func (s *Sim) maybeDrop() {
	if sp := s.cfg.Replay; sp != nil {
		if id, ok := sp.Drop[s.ev]; ok {
			if id < len(s.poolIdx) {
				s.dropPool(s.poolIdx[id])
				s.rec.Drop[s.ev] = id
			} else {
				s.stats.Diverged = true
			}
		}
		return
	}
	if s.cfg.DropRate > 0 && len(s.poolIdx) > 0 && s.pool.Bool(s.cfg.DropRate) {
		p := s.poolIdx[s.pool.Intn(len(s.poolIdx))]
		if len(p.free) > 0 {
			s.dropPool(p)
			s.rec.Drop[s.ev] = p.id
		}
	}
}

func (s *Sim) dropPool(p *poolState) {
	s.stats.Drops++
	p.free = p.free[:0:0]
	p.listed = map[unsafe.Pointer]int{}
	s.hash(0xd509, uint64(p.id))
}

// complete finalises the pending request of the task that is about to run.
func (s *Sim) complete(t *task) resp {
	r := t.pending
	switch r.kind {
	case KGet:
		p := s.poolOf(r.key)
		if len(p.free) == 0 {
			s.stats.PoolFresh++
			s.stats.PoolFreshOnly++
			s.hash(0x9e7, ^uint64(0))
			return resp{fresh: true}
		}
		k := s.poolChoice(p) // -1 fresh, else k-th most recent
		if k != 0 {
			s.rec.Pool[s.ev] = k
		}
		s.hash(0x9e7, uint64(int64(k)))
		if k < 0 {
			s.stats.PoolFresh++
			return resp{fresh: true}
		}
		idx := len(p.free) - 1 - k
		e := p.free[idx]
		if idx < len(p.free)/2 {
			// shift the (shorter) front part
			copy(p.free[1:idx+1], p.free[:idx])
			p.free[0] = freeEntry{}
			p.free = p.free[1:]
		} else {
			p.free = append(p.free[:idx], p.free[idx+1:]...)
		}
		if p.listed[e.ptr]--; p.listed[e.ptr] > 0 {
			s.stats.SameObjTwice++
		} else {
			delete(p.listed, e.ptr)
		}
		if e.by != t.id {
			s.stats.CrossReuse++
			bt := s.tasks[e.by]
			if bt.state != tsDone && bt.step == e.byStep {
				s.stats.ReuseLive++
			}
		}
		return resp{obj: e.obj}
	case KLock:
		m := s.mutexOf(r.key)
		m.held = true
		m.owner = t.id
	case KRLock:
		s.mutexOf(r.key).readers++
	case KOnceEnter:
		o := s.onceOf(r.key)
		if !o.done {
			o.running = true
			s.stats.OnceRun++
			return resp{run: true}
		}
	case KStep:
		// fault kind clock-skip: time passes between calls. The clock is only moved while every
		// task is between two calls (a process that sits idle for a minute or a month): a skip that
		// is drawn while some other task is inside a call waits until that is so. Moving the clock
		// under a call in flight would make a correct time-out in it fire (a first version did,
		// DESIGN.md §12). Every other goroutine of the bubble is parked (or will park), so the sleep
		// returns at once with the clock moved.
		if pct := s.cfg.ClockSkipPct; pct > 0 && s.quiescent != nil {
			x := Mix(s.cfg.Seed, 0xc10c, uint64(t.id), uint64(t.step))
			if int(x%100) < pct && s.skipPending < 60*24*time.Hour {
				s.skipPending += clockSkips[(x>>8)%uint64(len(clockSkips))]
			}
			if s.skipPending > 0 && s.betweenCalls() {
				d := s.skipPending
				s.skipPending = 0
				s.stats.ClockSkips++
				s.stats.SimTimeMs += d.Milliseconds()
				time.Sleep(d)
				// the clock only moved once every goroutine of the bubble was durably blocked - the
				// monitor too, on its notice of that very quiescence: take it, it is not about t
				select {
				case <-s.stuck:
				default:
				}
			}
		}
	case KStamp:
		return resp{ev: s.ev}
	case KSpawn:
		// a `go` statement of the code under test: the new goroutine becomes a task of its own.
		// The struct is allocated here; the child acquires what is released below, which orders
		// this allocation (and nothing any task did) before the child's first use of it.
		c := &task{id: len(s.tasks), resp: make(chan resp), finished: make(chan struct{}), order: NewRand(Mix(r.seed, uint64(len(s.tasks)))), prio: t.prio, dynamic: true}
		raceEnable()
		RaceReleaseMerge(unsafe.Pointer(c))
		raceDisable()
		s.tasks = append(s.tasks, c)
		s.stats.PerTaskEvents = append(s.stats.PerTaskEvents, 0)
		s.stats.Spawned++
		s.awaitStart = c
		return resp{child: c}
	}
	return resp{}
}

// betweenCalls reports whether no task is inside an API call: all are before their first call,
// at the start of their next one, or finished (a goroutine started by the code under test is
// always part of a call).
func (s *Sim) betweenCalls() bool {
	for _, o := range s.tasks {
		switch {
		case o.state == tsDone:
		case o.dynamic:
			return false
		case o.state == tsNew:
		case o.state == tsPending && (o.pending.kind == KStart || o.pending.kind == KStep):
		default:
			return false
		}
	}
	return true
}

var clockSkips = []time.Duration{time.Millisecond, time.Second, 61 * time.Second, 10*time.Minute + time.Second, time.Hour + time.Second, 25 * time.Hour, 31 * 24 * time.Hour}

func (s *Sim) poolChoice(p *poolState) int {
	n := len(p.free)
	if sp := s.cfg.Replay; sp != nil {
		if k, ok := sp.Pool[s.ev]; ok {
			if k < n {
				return k
			}
			s.stats.Diverged = true
		}
		return 0
	}
	c := s.cfg
	tot := c.PoolFresh + c.PoolRecent + c.PoolOldest + c.PoolRandom
	if tot <= 0 {
		return 0
	}
	x := s.pool.Intn(tot)
	switch {
	case x < c.PoolFresh:
		return -1
	case x < c.PoolFresh+c.PoolRecent:
		s.stats.PoolRecent++
		return 0
	case x < c.PoolFresh+c.PoolRecent+c.PoolOldest:
		s.stats.PoolOldest++
		return n - 1
	default:
		s.stats.PoolRandom++
		return s.pool.Intn(n)
	}
}

// ---------------------------------------------------------------------------------------------
// API used by ssync and by instrumented code (task goroutines)

var liveSites atomic.Pointer[[]bool]

// SetLiveSites installs the table of live yield sites (nil = all live).
func SetLiveSites(l []bool) {
	if l == nil {
		liveSites.Store(nil)
		return
	}
	liveSites.Store(&l)
}

// Yield is inserted by the instrumenter before statements that touch mutated package-level
// variables.
func Yield(site int32) {
	s := active.Load()
	if s == nil {
		noteSolo()
		return
	}
	if l := liveSites.Load(); l != nil && site >= 0 && int(site) < len(*l) && !(*l)[site] {
		return
	}
	_, t := current()
	s.call(t, req{task: t, kind: KYield, site: site})
}

// StepMark tells the scheduler that the calling task starts its next step; it is a decision point.
func StepMark() {
	s, t := current()
	if s == nil {
		return
	}
	s.call(t, req{task: t, kind: KStep})
}

// Go is what `go f(...)` statements of the canvas packages are rewritten to: inside a simulation the
// new goroutine becomes a task of its own (scheduled at decision points like the others; if it
// waits on a channel / WaitGroup of the code under test, see SetQuiescenceWait). The real go
// statement is executed by the calling task, so the race detector sees the usual edge.
func Go(fn func()) {
	s, t := current()
	if s == nil {
		go fn()
		return
	}
	rs := s.call(t, req{task: t, kind: KSpawn, seed: t.order.Uint64()})
	c := rs.child
	go func() {
		RaceAcquire(unsafe.Pointer(c))
		defer close(c.finished)
		register(c)
		s.call(c, req{task: c, kind: KStart})
		defer func() { s.call(c, req{task: c, kind: KEnd}) }()
		fn()
	}()
	// let the scheduler see the child's start request before this task goes on: the child is then
	// a known, runnable task at the caller's next decision point
	s.call(t, req{task: t, kind: KYield, site: -4})
}

// Stamp returns the scheduler's global event sequence number at the moment the calling task is
// resumed; it is a decision point. Used to stamp invoke/return events of recorded histories.
// Outside a simulation it returns a process-wide counter.
func Stamp() int64 {
	s, t := current()
	if s == nil {
		return soloStamp.Add(1)
	}
	return int64(s.call(t, req{task: t, kind: KStamp}).ev)
}

var soloStamp atomic.Int64

// PoolGet asks the scheduler for an object of the pool identified by key. fresh means the caller
// must allocate a new one.
func PoolGet(key unsafe.Pointer) (obj any, fresh bool, simulated bool) {
	s, t := current()
	if s == nil {
		noteSolo()
		return nil, true, false
	}
	rs := s.call(t, req{task: t, kind: KGet, key: key})
	return rs.obj, rs.fresh, true
}

// PoolPut returns an object to the simulated pool. It reports false when no simulation is active.
func PoolPut(key unsafe.Pointer, obj any) bool {
	s, t := current()
	if s == nil {
		noteSolo()
		return false
	}
	s.call(t, req{task: t, kind: KPut, key: key, obj: obj})
	return true
}

func MutexLock(key unsafe.Pointer, read bool) bool {
	s, t := current()
	if s == nil {
		noteSolo()
		return false
	}
	k := KLock
	if read {
		k = KRLock
	}
	s.call(t, req{task: t, kind: k, key: key})
	return true
}

func MutexUnlock(key unsafe.Pointer, read bool) bool {
	s, t := current()
	if s == nil {
		noteSolo()
		return false
	}
	k := KUnlock
	if read {
		k = KRUnlock
	}
	s.call(t, req{task: t, kind: k, key: key})
	return true
}

// OnceEnter reports (run, simulated): run means the caller must execute the function and then
// call OnceDone.
func OnceEnter(key unsafe.Pointer) (bool, bool) {
	s, t := current()
	if s == nil {
		noteSolo()
		return false, false
	}
	rs := s.call(t, req{task: t, kind: KOnceEnter, key: key})
	return rs.run, true
}

func OnceDone(key unsafe.Pointer) {
	s, t := current()
	if s == nil {
		return
	}
	s.call(t, req{task: t, kind: KOnceDone, key: key})
}

// MarkOnceDone lets ssync tell a new simulation that a Once completed earlier.
func (s *Sim) MarkOnceDone(key unsafe.Pointer) { s.onceOf(key).done = true }

type eface struct {
	typ, data unsafe.Pointer
}

func dataPtr(x any) unsafe.Pointer { return (*eface)(unsafe.Pointer(&x)).data }

// DataPtr exposes the data word of an interface (object identity for pools).
func DataPtr(x any) unsafe.Pointer { return dataPtr(x) }
