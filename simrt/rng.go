// Package simrt is the deterministic simulator runtime used by the C20 checks: a seeded
// cooperative scheduler for caller goroutines ("tasks"), simulated sync.Pool / Mutex / Once
// state, seeded map iteration order and yield points at shared globals.
//
// All simulator state is owned by ONE scheduler goroutine; task goroutines talk to it through
// channels inside runtime.RaceDisable/RaceEnable windows, so that in -race builds neither the
// hand-off nor the simulator's own bookkeeping creates happens-before edges or race reports:
// the detector judges the code under test by the synchronisation that code performs itself.
package simrt

// Rand is a splitmix64 generator. It is the only source of randomness in the simulator.
type Rand struct{ s uint64 }

func NewRand(seed uint64) *Rand { return &Rand{s: seed} }

func (r *Rand) Uint64() uint64 {
	r.s += 0x9e3779b97f4a7c15
	z := r.s
	z = (z ^ (z >> 30)) * 0xbf58476d1ce4e5b9
	z = (z ^ (z >> 27)) * 0x94d049bb133111eb
	return z ^ (z >> 31)
}

// Intn returns a value in [0,n). n must be > 0.
func (r *Rand) Intn(n int) int {
	if n <= 1 {
		return 0
	}
	return int(r.Uint64() % uint64(n))
}

func (r *Rand) Float() float64 { return float64(r.Uint64()>>11) / (1 << 53) }

func (r *Rand) Bool(p float64) bool { return r.Float() < p }

// Perm returns a permutation of [0,n).
func (r *Rand) Perm(n int) []int {
	p := make([]int, n)
	for i := range p {
		p[i] = i
	}
	for i := n - 1; i > 0; i-- {
		j := r.Intn(i + 1)
		p[i], p[j] = p[j], p[i]
	}
	return p
}

// Mix derives a new seed from a seed and labels (order-sensitive).
func Mix(seed uint64, labels ...uint64) uint64 {
	h := seed ^ 0x6a09e667f3bcc908
	for _, l := range labels {
		h ^= l + 0x9e3779b97f4a7c15 + (h << 6) + (h >> 2)
		h = NewRand(h).Uint64()
	}
	return h
}

// MixS derives a seed from a seed and a string label.
func MixS(seed uint64, label string) uint64 {
	h := uint64(14695981039346656037)
	for i := 0; i < len(label); i++ {
		h ^= uint64(label[i])
		h *= 1099511628211
	}
	return Mix(seed, h)
}
