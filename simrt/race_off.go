//go:build !race

package simrt

import "unsafe"

// RaceBuild reports whether the binary was built with -race.
const RaceBuild = false

func raceDisable() {}
func raceEnable()  {}

func RaceAcquire(p unsafe.Pointer)      {}
func RaceReleaseMerge(p unsafe.Pointer) {}

func RaceErrors() int { return 0 }
