package simrt

import (
	"fmt"
	"iter"
	"reflect"
	"sort"
	"sync/atomic"
	"unsafe"
)

// Map iteration order. The instrumenter rewrites `range m` (m a map) into `range simrt.Range(m)`.
// Range visits a snapshot of the keys in an order drawn from a seeded stream: the running task's
// stream inside a simulation, the harness-installed "solo" stream outside. Every order produced
// is one the Go runtime could have produced (deleted keys are skipped, keys inserted during the
// loop are not visited), so this seam cannot create behaviour that production cannot show.

var soloOrder atomic.Pointer[Rand]

// SetSoloOrder installs the map-order stream used outside simulations (nil = identity order of
// the canonical key sort).
func SetSoloOrder(r *Rand) { soloOrder.Store(r) }

// RangeCount counts rewritten range loops executed (owned by the harness; not synchronised, only
// touched by the single running goroutine).
var rangeCount atomic.Uint64
var rangeMulti atomic.Uint64

// RangeCounts returns (loops executed, loops over maps with at least two keys) since the last reset.
func RangeCounts() (uint64, uint64) { return rangeCount.Load(), rangeMulti.Load() }
func ResetRangeCounts()             { rangeCount.Store(0); rangeMulti.Store(0) }

func orderStream() *Rand {
	if active.Load() != nil {
		if _, t := current(); t != nil {
			return t.order
		}
	}
	return soloOrder.Load()
}

// pointer registry: harness-created objects get a stable id so that pointer-keyed maps have a
// canonical order that does not depend on heap addresses.
var ptrIDs = map[unsafe.Pointer]uint64{}
var ptrNext uint64

// RegisterPtr gives p (a pointer) a stable ordinal. Call only from the harness goroutine while no
// simulation is active.
func RegisterPtr(p any) {
	d := dataPtr(p)
	if _, ok := ptrIDs[d]; !ok {
		ptrNext++
		ptrIDs[d] = ptrNext
	}
}

// RegisterPtrID gives p an explicit ordinal (same rules as RegisterPtr).
func RegisterPtrID(p any, id uint64) { ptrIDs[dataPtr(p)] = id }

// ResetPtrs forgets all registrations.
func ResetPtrs() { ptrIDs = map[unsafe.Pointer]uint64{}; ptrNext = 0 }

type sortKey struct {
	class int // 0 int, 1 uint, 2 float, 3 string
	i     int64
	u     uint64
	f     float64
	s     string
}

func keyOf(v any) sortKey {
	switch x := v.(type) {
	case int:
		return sortKey{class: 0, i: int64(x)}
	case int8:
		return sortKey{class: 0, i: int64(x)}
	case int16:
		return sortKey{class: 0, i: int64(x)}
	case int32:
		return sortKey{class: 0, i: int64(x)}
	case int64:
		return sortKey{class: 0, i: x}
	case uint:
		return sortKey{class: 1, u: uint64(x)}
	case uint8:
		return sortKey{class: 1, u: uint64(x)}
	case uint16:
		return sortKey{class: 1, u: uint64(x)}
	case uint32:
		return sortKey{class: 1, u: uint64(x)}
	case uint64:
		return sortKey{class: 1, u: x}
	case uintptr:
		return sortKey{class: 1, u: uint64(x)}
	case float32:
		return sortKey{class: 2, f: float64(x)}
	case float64:
		return sortKey{class: 2, f: x}
	case string:
		return sortKey{class: 3, s: x}
	case bool:
		if x {
			return sortKey{class: 0, i: 1}
		}
		return sortKey{class: 0, i: 0}
	}
	rv := reflect.ValueOf(v)
	switch rv.Kind() {
	case reflect.Int, reflect.Int8, reflect.Int16, reflect.Int32, reflect.Int64:
		return sortKey{class: 0, i: rv.Int()}
	case reflect.Uint, reflect.Uint8, reflect.Uint16, reflect.Uint32, reflect.Uint64, reflect.Uintptr:
		return sortKey{class: 1, u: rv.Uint()}
	case reflect.Float32, reflect.Float64:
		return sortKey{class: 2, f: rv.Float()}
	case reflect.String:
		return sortKey{class: 3, s: rv.String()}
	case reflect.Bool:
		if rv.Bool() {
			return sortKey{class: 0, i: 1}
		}
		return sortKey{class: 0}
	case reflect.Pointer, reflect.UnsafePointer, reflect.Chan:
		p := rv.UnsafePointer()
		if id, ok := ptrIDs[p]; ok {
			return sortKey{class: 1, u: id}
		}
		// unregistered: address order (legal, but not reproducible across processes)
		return sortKey{class: 1, u: 1<<63 | uint64(uintptr(p))}
	}
	return sortKey{class: 3, s: fmt.Sprintf("%#v", v)}
}

func (a sortKey) less(b sortKey) bool {
	if a.class != b.class {
		return a.class < b.class
	}
	switch a.class {
	case 0:
		return a.i < b.i
	case 1:
		return a.u < b.u
	case 2:
		return a.f < b.f
	}
	return a.s < b.s
}

// Range is what `range m` over a map is rewritten to.
func Range[M ~map[K]V, K comparable, V any](m M) iter.Seq2[K, V] {
	return func(yield func(K, V) bool) {
		raceDisable() // counters are simulator bookkeeping: no happens-before edges between tasks
		rangeCount.Add(1)
		if len(m) > 1 {
			rangeMulti.Add(1)
		}
		raceEnable()
		if len(m) == 0 {
			return
		}
		type pair struct {
			k K
			v V
		}
		keys := make([]K, 0, len(m))
		var odd []pair // keys that are not equal to themselves (NaN): cannot be looked up again
		for k, v := range m {
			if k != k {
				odd = append(odd, pair{k, v})
			} else {
				keys = append(keys, k)
			}
		}
		if len(keys) > 1 {
			sk := make([]sortKey, len(keys))
			idx := make([]int, len(keys))
			for i, k := range keys {
				sk[i] = keyOf(k)
				idx[i] = i
			}
			sort.SliceStable(idx, func(a, b int) bool { return sk[idx[a]].less(sk[idx[b]]) })
			sorted := make([]K, len(keys))
			for i, j := range idx {
				sorted[i] = keys[j]
			}
			keys = sorted
			if r := orderStream(); r != nil {
				for i := len(keys) - 1; i > 0; i-- {
					j := r.Intn(i + 1)
					keys[i], keys[j] = keys[j], keys[i]
				}
			}
		}
		for _, k := range keys {
			v, ok := m[k]
			if !ok {
				continue
			}
			if !yield(k, v) {
				return
			}
		}
		for _, p := range odd {
			if !yield(p.k, p.v) {
				return
			}
		}
	}
}

// OrderAny returns the visiting order (indices into keys) for a snapshot of dynamically typed keys:
// canonical sort, then a permutation from the running task's stream. Used by ssync.Map.Range.
func OrderAny(keys []any) []int {
	sk := make([]sortKey, len(keys))
	idx := make([]int, len(keys))
	for i, k := range keys {
		sk[i] = keyOf(k)
		idx[i] = i
	}
	sort.SliceStable(idx, func(a, b int) bool { return sk[idx[a]].less(sk[idx[b]]) })
	if r := orderStream(); r != nil {
		for i := len(idx) - 1; i > 0; i-- {
			j := r.Intn(i + 1)
			idx[i], idx[j] = idx[j], idx[i]
		}
	}
	return idx
}
