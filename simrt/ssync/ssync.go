// Package ssync is what the instrumented canvas packages import instead of "sync": Pool, Mutex,
// RWMutex, Once, OnceFunc, OnceValue(s) are under simulator control while a simulation is
// active; everything else is the real thing.
//
// Outside a simulation ("passthrough", used for the solo reference executions) a Pool never
// recycles: Get returns New() and Put drops the object. That is the semantics of the code under
// test with recycling switched off, which is what C20's "pooled objects carry no state between
// calls" says every execution must be indistinguishable from.
package ssync

import (
	"sync"
	"sync/atomic"
	"unsafe"

	"verif/simrt"
)

type (
	Cond   = sync.Cond
	Locker = sync.Locker
)

// WaitGroup is the real WaitGroup (waiting on it is "blocking outside the simulator", see simrt)
// plus a Go method whose goroutine becomes a simulated task.
type WaitGroup struct {
	sync.WaitGroup
}

func (wg *WaitGroup) Go(f func()) {
	wg.Add(1)
	simrt.Go(func() {
		defer wg.Done()
		f()
	})
}

// Map replaces sync.Map: the real map with a decision point before and after every operation, so
// that the scheduler can run another task between, say, a LoadOrStore that publishes an entry and
// the code that completes it.
type Map struct {
	real sync.Map
}

const siteMap = -2

func (m *Map) Load(key any) (any, bool) {
	simrt.Yield(siteMap)
	v, ok := m.real.Load(key)
	simrt.Yield(siteMap)
	return v, ok
}

func (m *Map) Store(key, value any) {
	simrt.Yield(siteMap)
	m.real.Store(key, value)
	simrt.Yield(siteMap)
}

func (m *Map) LoadOrStore(key, value any) (any, bool) {
	simrt.Yield(siteMap)
	v, ok := m.real.LoadOrStore(key, value)
	simrt.Yield(siteMap)
	return v, ok
}

func (m *Map) LoadAndDelete(key any) (any, bool) {
	simrt.Yield(siteMap)
	v, ok := m.real.LoadAndDelete(key)
	simrt.Yield(siteMap)
	return v, ok
}

func (m *Map) Delete(key any) {
	simrt.Yield(siteMap)
	m.real.Delete(key)
	simrt.Yield(siteMap)
}

func (m *Map) Swap(key, value any) (any, bool) {
	simrt.Yield(siteMap)
	v, ok := m.real.Swap(key, value)
	simrt.Yield(siteMap)
	return v, ok
}

func (m *Map) CompareAndSwap(key, old, new any) bool {
	simrt.Yield(siteMap)
	ok := m.real.CompareAndSwap(key, old, new)
	simrt.Yield(siteMap)
	return ok
}

func (m *Map) CompareAndDelete(key, old any) bool {
	simrt.Yield(siteMap)
	ok := m.real.CompareAndDelete(key, old)
	simrt.Yield(siteMap)
	return ok
}

func (m *Map) Range(f func(key, value any) bool) {
	simrt.Yield(siteMap)
	// snapshot, then visit in a seeded order (sync.Map.Range order is unspecified)
	var ks, vs []any
	m.real.Range(func(k, v any) bool { ks, vs = append(ks, k), append(vs, v); return true })
	for _, i := range simrt.OrderAny(ks) {
		if v, ok := m.real.Load(ks[i]); ok {
			if !f(ks[i], v) {
				break
			}
		}
	}
	_ = vs
	simrt.Yield(siteMap)
}

func (m *Map) Clear() {
	simrt.Yield(siteMap)
	m.real.Clear()
	simrt.Yield(siteMap)
}

func NewCond(l Locker) *Cond { return sync.NewCond(l) }

// Pool replaces sync.Pool.
type Pool struct {
	New func() any
}

// SoloGets counts pool requests made outside simulations and in simulated reference executions
// (the harness reads and resets it between calls). Atomic and hidden from the race detector: code
// under test may start goroutines of its own.
var soloGets atomic.Int64

func SoloGets() int  { return int(soloGets.Load()) }
func ResetSoloGets() { soloGets.Store(0) }

func (p *Pool) Get() any {
	obj, fresh, simulated := simrt.PoolGet(unsafe.Pointer(p))
	if !simulated || simrt.CountingGets() {
		simrt.Quiet(func() { soloGets.Add(1) })
	}
	if !simulated || fresh {
		if p.New != nil {
			return p.New()
		}
		return nil
	}
	// the edge the real pool publishes between Put(x) and the Get that returns x
	simrt.RaceAcquire(simrt.DataPtr(obj))
	return obj
}

func (p *Pool) Put(x any) {
	if x == nil {
		return
	}
	if !simrt.Active() {
		return
	}
	simrt.RaceReleaseMerge(simrt.DataPtr(x))
	simrt.PoolPut(unsafe.Pointer(p), x)
}

// Mutex replaces sync.Mutex. Inside a simulation contention parks the task in the scheduler; the
// real mutex underneath is then always free and is still locked so that the race detector sees
// exactly the edges a real mutex publishes.
type Mutex struct {
	real sync.Mutex
}

func (m *Mutex) Lock() {
	simrt.MutexLock(unsafe.Pointer(m), false)
	m.real.Lock()
}

func (m *Mutex) Unlock() {
	m.real.Unlock()
	simrt.MutexUnlock(unsafe.Pointer(m), false)
}

func (m *Mutex) TryLock() bool {
	if simrt.Active() {
		simrt.Yield(-1)
	}
	return m.real.TryLock()
}

// RWMutex replaces sync.RWMutex.
type RWMutex struct {
	real sync.RWMutex
}

func (m *RWMutex) Lock() {
	simrt.MutexLock(unsafe.Pointer(m), false)
	m.real.Lock()
}

func (m *RWMutex) Unlock() {
	m.real.Unlock()
	simrt.MutexUnlock(unsafe.Pointer(m), false)
}

func (m *RWMutex) RLock() {
	simrt.MutexLock(unsafe.Pointer(m), true)
	m.real.RLock()
}

func (m *RWMutex) RUnlock() {
	m.real.RUnlock()
	simrt.MutexUnlock(unsafe.Pointer(m), true)
}

func (m *RWMutex) RLocker() Locker { return (*rlocker)(m) }

type rlocker RWMutex

func (r *rlocker) Lock()   { (*RWMutex)(r).RLock() }
func (r *rlocker) Unlock() { (*RWMutex)(r).RUnlock() }

// Once replaces sync.Once.
type Once struct {
	done atomic.Bool
	mu   sync.Mutex
}

func (o *Once) Do(f func()) {
	if o.done.Load() { // same fast path (and same acquire edge) as the real Once
		return
	}
	if run, simulated := simrt.OnceEnter(unsafe.Pointer(o)); simulated {
		// blocked in the scheduler while another task was running f
		if o.done.Load() {
			return
		}
		if !run {
			return
		}
		defer func() {
			o.done.Store(true)
			simrt.OnceDone(unsafe.Pointer(o))
		}()
		f()
		return
	}
	o.mu.Lock()
	defer o.mu.Unlock()
	if !o.done.Load() {
		defer o.done.Store(true)
		f()
	}
}

func OnceFunc(f func()) func() {
	var once Once
	var valid bool
	var p any
	g := func() {
		defer func() {
			p = recover()
			if !valid {
				panic(p)
			}
		}()
		f()
		f = nil
		valid = true
	}
	return func() {
		once.Do(g)
		if !valid {
			panic(p)
		}
	}
}

func OnceValue[T any](f func() T) func() T {
	var once Once
	var valid bool
	var p any
	var result T
	g := func() {
		defer func() {
			p = recover()
			if !valid {
				panic(p)
			}
		}()
		result = f()
		f = nil
		valid = true
	}
	return func() T {
		once.Do(g)
		if !valid {
			panic(p)
		}
		return result
	}
}

func OnceValues[T1, T2 any](f func() (T1, T2)) func() (T1, T2) {
	var once Once
	var valid bool
	var p any
	var r1 T1
	var r2 T2
	g := func() {
		defer func() {
			p = recover()
			if !valid {
				panic(p)
			}
		}()
		r1, r2 = f()
		f = nil
		valid = true
	}
	return func() (T1, T2) {
		once.Do(g)
		if !valid {
			panic(p)
		}
		return r1, r2
	}
}
