package ssync_test

import (
	"testing"

	"verif/simrt"
	sync "verif/simrt/ssync"
)

func cfg(seed uint64, sched int) simrt.Config {
	return simrt.Config{Seed: seed, Sched: sched, StayProb: 0.5, PoolRecent: 2, PoolOldest: 1, PoolFresh: 1, PoolRandom: 1, DropRate: 0.02, PCTDepth: 3, PCTLen: 100}
}

type obj struct{ v int }

func workload(shared *int, mu *sync.Mutex, pool *sync.Pool, guarded bool) []func() {
	var bodies []func()
	for i := 0; i < 3; i++ {
		bodies = append(bodies, func() {
			for k := 0; k < 20; k++ {
				o := pool.Get().(*obj)
				o.v++
				if guarded {
					mu.Lock()
					*shared++
					simrt.Yield(1)
					mu.Unlock()
				} else {
					x := *shared
					simrt.Yield(2)
					*shared = x + 1
				}
				pool.Put(o)
			}
		})
	}
	return bodies
}

func TestDeterministicAndRace(t *testing.T) {
	for sched := 0; sched < 4; sched++ {
		var hashes []uint64
		for rep := 0; rep < 3; rep++ {
			shared := 0
			var mu sync.Mutex
			pool := &sync.Pool{New: func() any { return &obj{} }}
			s := simrt.New(cfg(42, sched), 3, []uint64{1, 2, 3}, false)
			s.Run(workload(&shared, &mu, pool, true))
			if shared != 60 {
				t.Fatalf("guarded counter = %d", shared)
			}
			hashes = append(hashes, s.Stats().TraceHash)
			if rep == 0 {
				t.Logf("sched %d: %+v", sched, *s.Stats())
			}
		}
		if hashes[0] != hashes[1] || hashes[1] != hashes[2] {
			t.Fatalf("nondeterministic: %v", hashes)
		}
	}
	before := simrt.RaceErrors()
	if simrt.RaceBuild && before != 0 {
		t.Fatalf("guarded workload reported %d races", before)
	}
	shared := 0
	var mu sync.Mutex
	pool := &sync.Pool{New: func() any { return &obj{} }}
	s := simrt.New(cfg(7, simrt.SchedUniform), 3, []uint64{1, 2, 3}, false)
	s.Run(workload(&shared, &mu, pool, false))
	t.Logf("unguarded counter = %d (lost updates expected), races reported=%d", shared, simrt.RaceErrors()-before)
	if simrt.RaceBuild && simrt.RaceErrors() == before {
		t.Fatalf("unguarded workload: race not reported")
	}
	// replay of recorded decisions reproduces the trace
	c := cfg(99, simrt.SchedChase)
	shared = 0
	s1 := simrt.New(c, 3, []uint64{1, 2, 3}, false)
	s1.Run(workload(&shared, &mu, &sync.Pool{New: func() any { return &obj{} }}, true))
	c.Replay = s1.Recorded()
	s2 := simrt.New(c, 3, []uint64{1, 2, 3}, false)
	s2.Run(workload(&shared, &mu, &sync.Pool{New: func() any { return &obj{} }}, true))
	if s1.Stats().TraceHash != s2.Stats().TraceHash || s2.Stats().Diverged {
		t.Fatalf("replay differs: %x %x diverged=%v", s1.Stats().TraceHash, s2.Stats().TraceHash, s2.Stats().Diverged)
	}
}

func TestDeadlock(t *testing.T) {
	var a, b sync.Mutex
	aborted := 0
	body := func(x, y *sync.Mutex) func() {
		return func() {
			defer func() {
				if r := recover(); r != nil {
					if _, ok := r.(simrt.ErrAbort); ok {
						aborted++
						return
					}
					panic(r)
				}
			}()
			x.Lock()
			defer x.Unlock()
			simrt.Yield(3)
			y.Lock()
			defer y.Unlock()
		}
	}
	found := false
	for seed := uint64(0); seed < 20; seed++ {
		s := simrt.New(cfg(seed, simrt.SchedUniform), 2, []uint64{1, 2}, false)
		s.Run([]func(){body(&a, &b), body(&b, &a)})
		if s.Stats().Deadlocks > 0 {
			found = true
		}
	}
	if !found || aborted == 0 {
		t.Fatalf("deadlock never found (aborted=%d)", aborted)
	}
}
