//go:build race

package simrt

import (
	"runtime"
	"unsafe"
)

// RaceBuild reports whether the binary was built with -race.
const RaceBuild = true

func raceDisable() { runtime.RaceDisable() }
func raceEnable()  { runtime.RaceEnable() }

// RaceAcquire / RaceReleaseMerge publish the happens-before edges of a simulated primitive.
func RaceAcquire(p unsafe.Pointer)      { runtime.RaceAcquire(p) }
func RaceReleaseMerge(p unsafe.Pointer) { runtime.RaceReleaseMerge(p) }

// RaceErrors is the number of data races reported so far by the detector.
func RaceErrors() int { return runtime.RaceErrors() }
